// C15: clustering and vertexing conserve inputs and honour size and distance rules.
//
// Case lines (the model runner ocaml/run_c15.ml reads the same lines):
//   c15    <classes> <pts> <bins> <near>     real cluster_spacepoints vs model replay with the oracle tables
//   c15lc  <classes> <pts> <near>            real largest_cluster (hook) vs model
//   c15v   <classes> <pts> <flags> <sorted> <zclose> <rbits>   real find_vertices vs bookkeeping model
//   c15bc  <classes> <pts> <sorted> <zclose> real beamline_clusters (hook) vs model
//   relc15 <classes> <pts>                   implementation-only oracle: conservation, size >= 13, 3 cm connectivity,
//                                            sanity of the oracle tables (NoDup bins, symmetric near, class consistency)
//   relc15v <classes> <pts>                  implementation-only oracle: track partition, primary has >= 2 tracks
//   c15bins <point> <rhoseq>                 real get_bins (hook verif_hough_bins(p, 250, 230)) vs the model of its loop
//                                            structure (coq/Recon/Bins.v, get_bins_res 230) fed with <rhoseq>: the
//                                            231 values prev_rho_bin, rho_bin(theta_bin = 1..=230), recomputed here
//                                            with the operations of track_finding.rs:121-135; both sides print the
//                                            bin list run-length encoded as in <bins>
// <classes>: `;`-separated `==`-classes (derived PartialEq) of the input objects, each as `.`-separated
//            16-hex-digit bit patterns (points: r phi z; tracks: x0 y0 z0 r phi0 h t_inner t_outer); `-` if none
// <pts>:     `,`-separated class ids of the input in order
// <bins>:    per class the value of get_bins (hook verif_hough_bins(p, 250, 230)), run-length encoded
//            `theta.rho_first.count`
// <near>:    per class the ids j with distance(i, j) <= 3 cm (public SpacePoint::distance)
use crate::util::*;
use alpha_g_physics::reconstruction::{self as rec, cluster_spacepoints, find_vertices, Track};
use alpha_g_physics::SpacePoint;
use std::collections::HashMap;
use std::f64::consts::PI;
use uom::si::angle::radian;
use uom::si::f64::{Angle, Length};
use uom::si::length::{centimeter, meter};

const R_IN: f64 = 0.1092; // INNER_CATHODE_RADIUS
const R_OUT: f64 = 0.182; // ANODE_WIRES_RADIUS
const Z_HALF: f64 = 1.152;

type P3 = [u64; 3];

fn sp(b: P3) -> SpacePoint {
    SpacePoint {
        r: Length::new::<meter>(f64::from_bits(b[0])),
        phi: Angle::new::<radian>(f64::from_bits(b[1])),
        z: Length::new::<meter>(f64::from_bits(b[2])),
    }
}
fn sp_f(r: f64, phi: f64, z: f64) -> SpacePoint {
    sp([r.to_bits(), phi.to_bits(), z.to_bits()])
}
fn bits(p: SpacePoint) -> P3 {
    [
        p.r.get::<meter>().to_bits(),
        p.phi.get::<radian>().to_bits(),
        p.z.get::<meter>().to_bits(),
    ]
}
fn max_distance() -> Length {
    Length::new::<centimeter>(3.0)
}
fn near(a: SpacePoint, b: SpacePoint) -> bool {
    a.distance(b) <= max_distance()
}

fn join<T: ToString>(v: &[T], sep: &str) -> String {
    if v.is_empty() {
        "-".to_string()
    } else {
        v.iter().map(|x| x.to_string()).collect::<Vec<_>>().join(sep)
    }
}
fn split<'a>(s: &'a str, c: char) -> Vec<&'a str> {
    if s == "-" {
        Vec::new()
    } else {
        s.split(c).collect()
    }
}

/// `==`-classes of the points (first representative), class id of every input point
struct Classes {
    reps: Vec<SpacePoint>,
    ids: Vec<usize>,
    by_bits: HashMap<P3, usize>,
}
fn classify(points: &[SpacePoint]) -> Classes {
    let mut reps: Vec<SpacePoint> = Vec::new();
    let mut ids = Vec::with_capacity(points.len());
    let mut by_bits: HashMap<P3, usize> = HashMap::new();
    for &p in points {
        let id = match by_bits.get(&bits(p)) {
            Some(&i) => i,
            None => {
                let i = match reps.iter().position(|&q| q == p) {
                    Some(i) => i,
                    None => {
                        reps.push(p);
                        reps.len() - 1
                    }
                };
                by_bits.insert(bits(p), i);
                i
            }
        };
        ids.push(id);
    }
    Classes { reps, ids, by_bits }
}
fn classes_str(reps: &[SpacePoint]) -> String {
    let v: Vec<String> = reps
        .iter()
        .map(|&p| {
            let b = bits(p);
            format!("{:016x}.{:016x}.{:016x}", b[0], b[1], b[2])
        })
        .collect();
    join(&v, ";")
}
fn parse_points(classes: &str, pts: &str) -> Option<Vec<SpacePoint>> {
    let mut reps = Vec::new();
    for c in split(classes, ';') {
        let f: Vec<&str> = c.split('.').collect();
        if f.len() != 3 {
            return None;
        }
        let mut b = [0u64; 3];
        for k in 0..3 {
            b[k] = u64::from_str_radix(f[k], 16).ok()?;
        }
        reps.push(sp(b));
    }
    let mut out = Vec::new();
    for t in split(pts, ',') {
        out.push(*reps.get(t.parse::<usize>().ok()?)?);
    }
    Some(out)
}

fn hough_bins(p: SpacePoint) -> Vec<(u32, u32)> {
    rec::verif_hough_bins(p, 250, 230)
}
fn rle_bins(b: &[(u32, u32)]) -> String {
    let mut out: Vec<String> = Vec::new();
    let mut i = 0;
    while i < b.len() {
        let (t, lo) = b[i];
        let mut n = 1usize;
        while i + n < b.len() && b[i + n].0 == t && b[i + n].1 as u64 == lo as u64 + n as u64 {
            n += 1;
        }
        out.push(format!("{t}.{lo}.{n}"));
        i += n;
    }
    join(&out, ",")
}
/// The float part of get_bins (track_finding.rs:121-135), the same uom operations in the same order: element 0 is
/// prev_rho_bin before the loop (:130), element k the `rho_bin` of iteration theta_bin = k (:132-135).
fn rho_bin_sequence(point: SpacePoint, rho_bins: u32, theta_bins: u32) -> Vec<i32> {
    use alpha_g_detector::alpha16::aw_map::INNER_CATHODE_RADIUS;
    use uom::si::f64::ReciprocalLength;
    use uom::si::ratio::ratio;
    use uom::si::reciprocal_length::reciprocal_meter;
    use uom::typenum::P2;
    let rho_max = ReciprocalLength::new::<reciprocal_meter>(1.0 / INNER_CATHODE_RADIUS); // RHO_MAX  :90-94
    let u = point.x() / point.r.powi(P2::new()); // u_v  :110-111
    let v = point.y() / point.r.powi(P2::new());
    let delta_theta = Angle::FULL_TURN / f64::from(theta_bins); // :123
    let delta_rho = rho_max / f64::from(rho_bins); // :124
    let mut seq = vec![(u / delta_rho).get::<ratio>().floor() as i32]; // :130
    for theta_bin in 1..=theta_bins {
        let theta = f64::from(theta_bin) * delta_theta; // :132
        let (sin, cos) = theta.sin_cos(); // :133
        let rho = u * cos + v * sin; // :134
        seq.push((rho / delta_rho).get::<ratio>().floor() as i32); // :135
    }
    seq
}
fn observe_bins(p: SpacePoint) -> String {
    match catch(move || hough_bins(p)) {
        None => "panic".to_string(),
        Some(b) => format!("ok {}", if b.is_empty() { "-".to_string() } else { rle_bins(&b) }),
    }
}
fn emit_bins(s: &mut Sink, label: &str, p: SpacePoint) {
    let b = bits(p);
    let seq = rho_bin_sequence(p, 250, 230);
    s.put(
        &format!("c15bins {:016x}.{:016x}.{:016x} {}", b[0], b[1], b[2], join(&seq, ",")),
        &observe_bins(p),
        label,
        seq.iter().any(|&x| x >= 0),
    );
}
fn near_rows(reps: &[SpacePoint]) -> Vec<Vec<usize>> {
    reps.iter()
        .map(|&a| (0..reps.len()).filter(|&j| near(a, reps[j])).collect())
        .collect()
}
fn near_str(rows: &[Vec<usize>]) -> String {
    let v: Vec<String> = rows.iter().map(|r| join(r, ",")).collect();
    join(&v, ";")
}
fn ids_of(c: &Classes, pts: &[SpacePoint]) -> String {
    let v: Vec<String> = pts
        .iter()
        .map(|&p| match c.by_bits.get(&bits(p)) {
            Some(i) => i.to_string(),
            None => "?".to_string(),
        })
        .collect();
    join(&v, ",")
}

// ---------------------------------------------------------------- implementation observations
fn observe_cluster(points: &[SpacePoint]) -> String {
    let c = classify(points);
    let v = points.to_vec();
    match catch(move || cluster_spacepoints(v)) {
        None => "panic".to_string(),
        Some(res) => {
            let cl: Vec<String> = res
                .clusters
                .iter()
                .map(|k| ids_of(&c, &k.iter().copied().collect::<Vec<_>>()))
                .collect();
            format!("ok {} | {}", join(&cl, "/"), ids_of(&c, &res.remainder))
        }
    }
}
fn observe_largest(points: &[SpacePoint]) -> String {
    let c = classify(points);
    let v = points.to_vec();
    match catch(move || rec::verif_largest_cluster(v, max_distance())) {
        None => "panic".to_string(),
        Some(res) => format!("ok {}", ids_of(&c, &res)),
    }
}

fn find(u: &mut Vec<usize>, mut x: usize) -> usize {
    while u[x] != x {
        u[x] = u[u[x]];
        x = u[x];
    }
    x
}
/// property oracle on the implementation alone
fn rel_cluster(points: &[SpacePoint]) -> String {
    let c = classify(points);
    // oracle tables are sane: bins pairwise distinct, near symmetric and reflexive, `==`-equal points
    // have equal tables, `==` is reflexive on the case (no NaN)
    for &p in points {
        if p != p {
            return "fails eq-not-reflexive".to_string();
        }
    }
    let tabs: Vec<Vec<(u32, u32)>> = c.reps.iter().map(|&p| hough_bins(p)).collect();
    for (i, t) in tabs.iter().enumerate() {
        let mut s = t.clone();
        s.sort();
        s.dedup();
        if s.len() != t.len() {
            return format!("fails duplicate-bin class {i}");
        }
    }
    let rows = near_rows(&c.reps);
    for i in 0..rows.len() {
        if !rows[i].contains(&i) {
            return format!("fails near-not-reflexive {i}");
        }
        for &j in &rows[i] {
            if !rows[j].contains(&i) {
                return format!("fails near-not-symmetric {i} {j}");
            }
        }
    }
    for (k, &p) in points.iter().enumerate() {
        let rep = c.reps[c.ids[k]];
        if bits(p) != bits(rep) {
            if hough_bins(p) != tabs[c.ids[k]] {
                return format!("fails class-bins {k}");
            }
            for &q in &c.reps {
                if near(p, q) != near(rep, q) || near(q, p) != near(q, rep) {
                    return format!("fails class-near {k}");
                }
            }
        }
    }
    let v = points.to_vec();
    let res = match catch(move || cluster_spacepoints(v)) {
        None => return "fails panic".to_string(),
        Some(r) => r,
    };
    // conservation: input = clusters (+) remainder as multisets of `==`-classes
    let mut count = vec![0i64; c.reps.len()];
    for &i in &c.ids {
        count[i] += 1;
    }
    let mut out_pts: Vec<SpacePoint> = res.remainder.clone();
    for k in &res.clusters {
        out_pts.extend(k.iter().copied());
    }
    for p in out_pts {
        match c.reps.iter().position(|&q| q == p) {
            Some(i) => count[i] -= 1,
            None => return "fails foreign-point".to_string(),
        }
    }
    if let Some(i) = count.iter().position(|&x| x != 0) {
        return format!("fails conservation class {i} balance {}", count[i]);
    }
    for (n, k) in res.clusters.iter().enumerate() {
        let pts: Vec<SpacePoint> = k.iter().copied().collect();
        if pts.len() < 13 {
            return format!("fails size cluster {n} has {}", pts.len());
        }
        // single linkage at 3 cm: one component
        let mut u: Vec<usize> = (0..pts.len()).collect();
        for a in 0..pts.len() {
            for b in a + 1..pts.len() {
                if near(pts[a], pts[b]) {
                    let (ra, rb) = (find(&mut u, a), find(&mut u, b));
                    u[ra] = rb;
                }
            }
        }
        let r0 = find(&mut u, 0);
        for a in 1..pts.len() {
            if find(&mut u, a) != r0 {
                return format!("fails connectivity cluster {n}");
            }
        }
    }
    "holds".to_string()
}


// ---------------------------------------------------------------- vertexing
type T8 = [u64; 8];
fn trk(b: T8) -> Track {
    let f = |k: usize| f64::from_bits(b[k]);
    Track::verif_from_params([f(0), f(1), f(2), f(3), f(4), f(5)], f(6), f(7))
}
fn tbits(t: &Track) -> T8 {
    let p = t.verif_params();
    [
        p[0].to_bits(),
        p[1].to_bits(),
        p[2].to_bits(),
        p[3].to_bits(),
        p[4].to_bits(),
        p[5].to_bits(),
        t.t_inner().to_bits(),
        t.t_outer().to_bits(),
    ]
}
struct TClasses {
    reps: Vec<Track>,
    ids: Vec<usize>,
}
fn tclassify(tracks: &[Track]) -> TClasses {
    let mut reps: Vec<Track> = Vec::new();
    let mut ids = Vec::new();
    for t in tracks {
        // `==`, or bit-identical (a track with a NaN parameter is not `==` to itself)
        let i = match reps.iter().position(|q| q == t || tbits(q) == tbits(t)) {
            Some(i) => i,
            None => {
                reps.push(*t);
                reps.len() - 1
            }
        };
        ids.push(i);
    }
    TClasses { reps, ids }
}
/// class id of a track of the output (`?` if it is `==` to no input track)
fn tid(c: &TClasses, t: &Track) -> String {
    match c.reps.iter().position(|q| q == t || tbits(q) == tbits(t)) {
        Some(i) => i.to_string(),
        None => "?".to_string(),
    }
}
fn tclasses_str(reps: &[Track]) -> String {
    let v: Vec<String> = reps
        .iter()
        .map(|t| tbits(t).iter().map(|x| format!("{x:016x}")).collect::<Vec<_>>().join("."))
        .collect();
    join(&v, ";")
}
fn parse_tracks(classes: &str, pts: &str) -> Option<Vec<Track>> {
    let mut reps = Vec::new();
    for c in split(classes, ';') {
        let f: Vec<&str> = c.split('.').collect();
        if f.len() != 8 {
            return None;
        }
        let mut b = [0u64; 8];
        for k in 0..8 {
            b[k] = u64::from_str_radix(f[k], 16).ok()?;
        }
        reps.push(trk(b));
    }
    let mut out = Vec::new();
    for t in split(pts, ',') {
        out.push(*reps.get(t.parse::<usize>().ok()?)?);
    }
    Some(out)
}
// the two filters of find_vertices (vertex_fitting.rs:33-36) with the parameters of reconstruction.rs:334-337
fn long_enough(t: &Track) -> bool {
    rec::verif_helix_arc_length(t.verif_params(), t.t_inner(), t.t_outer()) > Length::new::<centimeter>(3.5)
}
fn close_beam(t: &Track) -> bool {
    let p = t.verif_params();
    let (x0, y0, r) = (Length::new::<meter>(p[0]), Length::new::<meter>(p[1]), Length::new::<meter>(p[3]));
    (r - x0.hypot(y0)).abs() < Length::new::<centimeter>(5.3)
}
fn beam_z(t: &Track) -> Length {
    rec::verif_helix_closest_to_beamline(t.verif_params()).z
}
fn cluster_distance() -> Length {
    Length::new::<centimeter>(3.4)
}

fn observe_vertex(tracks: &[Track]) -> String {
    let c = tclassify(tracks);
    let v = tracks.to_vec();
    match catch(move || find_vertices(v)) {
        None => "panic".to_string(),
        Some(res) => {
            let prim = match &res.primary {
                None => "none".to_string(),
                Some(vi) => join(&vi.tracks.iter().map(|(t, _)| tid(&c, t)).collect::<Vec<_>>(), ","),
            };
            let rem: Vec<String> = res.remainder.iter().map(|t| tid(&c, t)).collect();
            format!("ok {} | {}", prim, join(&rem, ","))
        }
    }
}
fn vertex_case_line(tracks: &[Track]) -> String {
    let c = tclassify(tracks);
    let flags: Vec<String> = c
        .reps
        .iter()
        .map(|t| format!("{}{}", long_enough(t) as u8, close_beam(t) as u8))
        .collect();
    let filtered: Vec<Track> = tracks.iter().filter(|t| long_enough(t) && close_beam(t)).copied().collect();
    let sorted = match catch(move || rec::verif_beamline_clusters(filtered, cluster_distance())) {
        None => "panic".to_string(),
        Some(cl) => {
            let ids: Vec<String> = cl.iter().flat_map(|(ts, _)| ts.iter().map(|t| tid(&c, t))).collect();
            join(&ids, ",")
        }
    };
    let z: Vec<Length> = c.reps.iter().map(beam_z).collect();
    let rows: Vec<Vec<usize>> = (0..z.len())
        .map(|i| (0..z.len()).filter(|&j| (z[i] - z[j]).abs() < cluster_distance()).collect())
        .collect();
    let rb: Vec<String> = c.reps.iter().map(|t| format!("{:016x}", t.verif_params()[3].to_bits())).collect();
    format!(
        "c15v {} {} {} {} {} {}",
        tclasses_str(&c.reps),
        join(&c.ids, ","),
        join(&flags, ","),
        sorted,
        near_str(&rows),
        join(&rb, ",")
    )
}
/// beamline_clusters alone (hook), on arbitrary track lists: clusters as class-id lists in order
fn observe_beamline(tracks: &[Track]) -> String {
    let c = tclassify(tracks);
    let v = tracks.to_vec();
    match catch(move || rec::verif_beamline_clusters(v, cluster_distance())) {
        None => "panic".to_string(),
        Some(cl) => {
            let v: Vec<String> = cl
                .iter()
                .map(|(ts, _)| join(&ts.iter().map(|t| tid(&c, t)).collect::<Vec<_>>(), ","))
                .collect();
            format!("ok {}", join(&v, "/"))
        }
    }
}
fn beamline_case_line(tracks: &[Track]) -> String {
    let c = tclassify(tracks);
    let obs = observe_beamline(tracks);
    let sorted = match obs.strip_prefix("ok ") {
        None => "panic".to_string(),
        Some(cl) => cl.replace('/', ","),
    };
    let z: Vec<Length> = c.reps.iter().map(beam_z).collect();
    let rows: Vec<Vec<usize>> = (0..z.len())
        .map(|i| (0..z.len()).filter(|&j| (z[i] - z[j]).abs() < cluster_distance()).collect())
        .collect();
    format!("c15bc {} {} {} {}", tclasses_str(&c.reps), join(&c.ids, ","), sorted, near_str(&rows))
}
fn rel_vertex(tracks: &[Track]) -> String {
    let c = tclassify(tracks);
    for t in tracks {
        if t != t {
            return "fails eq-not-reflexive".to_string();
        }
    }
    let v = tracks.to_vec();
    let res = match catch(move || find_vertices(v)) {
        None => return "fails panic".to_string(),
        Some(r) => r,
    };
    let mut count = vec![0i64; c.reps.len()];
    for &i in &c.ids {
        count[i] += 1;
    }
    let mut out: Vec<Track> = res.remainder.clone();
    for vi in res.primary.iter().chain(res.secondaries.iter()) {
        out.extend(vi.tracks.iter().map(|(t, _)| *t));
    }
    for t in out {
        match c.reps.iter().position(|q| *q == t) {
            Some(i) => count[i] -= 1,
            None => return "fails foreign-track".to_string(),
        }
    }
    if let Some(i) = count.iter().position(|&x| x != 0) {
        return format!("fails conservation class {i} balance {}", count[i]);
    }
    if let Some(vi) = &res.primary {
        if vi.tracks.len() < 2 {
            return format!("fails primary with {} tracks", vi.tracks.len());
        }
    }
    "holds".to_string()
}

fn gen_tracks(r: &mut Rng) -> (&'static str, Vec<Track>) {
    let n = r.range(0, 8) as usize;
    let nv = r.range(1, 3) as usize;
    let mut zv: Vec<f64> = vec![uni_in(r, -0.5, 0.5)];
    for k in 1..nv {
        // further vertices: far away, or exactly around the 3.4 cm chaining distance
        let step = r.pick(&[0.5, 0.1, 0.034, 0.0339, 0.0341, 0.068]);
        zv.push(zv[k - 1] + step);
    }
    let radii = [0.25, 0.5, 1.0, 0.75];
    let mut out: Vec<Track> = Vec::new();
    let mut label = "tracks";
    for _ in 0..n {
        if !out.is_empty() && r.chance(1, 6) {
            // identical track, or the same helix with another t range (one of the two may then fail the
            // track-length cut: equal helices are NOT equal tracks)
            let t = out[r.below(out.len() as u64) as usize];
            if r.chance(1, 2) {
                out.push(t);
            } else {
                let p = t.verif_params();
                let t_in = uni_in(r, -1.0, 1.0);
                let dt = r.pick(&[0.0, 0.01 / p[3], 0.034 / p[3], 0.036 / p[3], 0.5, -0.5, 1.2]);
                let twin = Track::verif_from_params(p, t_in, t_in + dt);
                if r.chance(1, 2) {
                    out.push(twin);
                } else {
                    out.insert(0, twin);
                }
            }
            continue;
        }
        let big_r = if r.chance(2, 3) { r.pick(&radii) } else { uni_in(r, 0.1, 3.0) };
        let d = match r.below(8) {
            0 => 0.0529,
            1 => 0.0531,
            2 => -0.0529,
            3 => -0.0531,
            4 => 0.2,
            5 => 0.0,
            _ => uni_in(r, -0.05, 0.05),
        };
        let a = uni_in(r, -PI, PI);
        let (x0, y0) = ((big_r + d) * a.cos(), (big_r + d) * a.sin());
        let phi0 = uni_in(r, -PI, PI);
        let mut h = if r.chance(1, 2) { 0.0 } else { uni_in(r, -1.0, 1.0) };
        if h == 0.0 && r.chance(1, 8) {
            h = -0.0;
        }
        let dz = match r.below(8) {
            0 => 0.0,
            1 => 0.01,
            2 => -0.01,
            3 => 0.0339,
            4 => 0.0341,
            5 => -0.034,
            _ => uni_in(r, -0.05, 0.05),
        };
        let zt = r.pick(&zv) + dz;
        // t at the closest approach to the beamline (as Helix::closest_to_beamline computes it)
        let (cx, cy) = (big_r * phi0.cos(), big_r * phi0.sin());
        let tc = (cx * (-y0) - cy * (-x0)).atan2(cx * (-x0) + cy * (-y0));
        let z0 = zt - h / (2.0 * PI) * tc;
        let t_in = uni_in(r, -1.0, 1.0);
        let dt = match r.below(6) {
            0 => 0.0,
            1 => 0.035 / big_r * (1.0 - 1e-3),
            2 => 0.035 / big_r * (1.0 + 1e-3),
            _ => uni_in(r, 0.05, 1.5),
        } * if r.chance(1, 2) { 1.0 } else { -1.0 };
        out.push(Track::verif_from_params([x0, y0, z0, big_r, phi0, h], t_in, t_in + dt));
    }
    if !out.is_empty() && r.chance(1, 25) {
        // a helix whose phase is not a number passes both filters and has no z at the beamline
        label = "tracks-nan-phi0";
        let k = r.below(out.len() as u64) as usize;
        let p = out[k].verif_params();
        out[k] = Track::verif_from_params([p[0], p[1], p[2], p[3], f64::NAN, p[5]], out[k].t_inner(), out[k].t_outer());
    }
    if r.chance(1, 3) {
        for i in (1..out.len()).rev() {
            let j = r.below(i as u64 + 1) as usize;
            out.swap(i, j);
        }
    }
    (label, out)
}

fn emit_vertex(s: &mut Sink, label: &str, tracks: &[Track]) {
    let obs = observe_vertex(tracks);
    let nontrivial = obs.starts_with("ok") && !obs.starts_with("ok none");
    let line = vertex_case_line(tracks);
    s.put(&line, &obs, label, nontrivial);
    s.put(&beamline_case_line(tracks), &observe_beamline(tracks), &format!("beamline-{label}"), tracks.len() > 1);
    if tracks.iter().all(|t| t == t) {
        let c = tclassify(tracks);
        s.put(
            &format!("relc15v {} {}", tclasses_str(&c.reps), join(&c.ids, ",")),
            &rel_vertex(tracks),
            &format!("rel-{label}"),
            nontrivial,
        );
    }
}

// ---------------------------------------------------------------- generators
fn uni(r: &mut Rng) -> f64 {
    (r.next() >> 11) as f64 / (1u64 << 53) as f64
}
fn uni_in(r: &mut Rng, lo: f64, hi: f64) -> f64 {
    lo + (hi - lo) * uni(r)
}
/// detector granularity: 256 wires in phi, 4 mm pads in z, 0.5 mm in r (gives exact ties and duplicates)
fn quantize(p: (f64, f64, f64)) -> (f64, f64, f64) {
    let pitch = 2.0 * PI / 256.0;
    (
        (p.0 / 0.0005).round() * 0.0005,
        ((p.1 / pitch).floor() + 0.5) * pitch,
        ((p.2 / 0.004).floor() + 0.5) * 0.004,
    )
}
fn random_point(r: &mut Rng, wide: bool) -> (f64, f64, f64) {
    let (lo, hi) = if wide { (0.03, 0.3) } else { (R_IN, R_OUT) };
    (uni_in(r, lo, hi), uni_in(r, -PI, PI), uni_in(r, -Z_HALF, Z_HALF))
}
/// n points of a track whose x-y projection is a circle through (near) the origin
fn track_points(r: &mut Rng, n: usize, gap: bool) -> Vec<(f64, f64, f64)> {
    let big_r = if r.chance(1, 4) { uni_in(r, 0.095, 0.3) } else { uni_in(r, 0.3, 5.0) };
    let a = uni_in(r, -PI, PI);
    let sign = if r.chance(1, 2) { 1.0 } else { -1.0 };
    let (cx, cy) = (big_r * a.cos(), big_r * a.sin());
    // small offset of the circle from the origin (tracks originate close to it, not on it)
    let (ox, oy) = if r.chance(1, 2) { (0.0, 0.0) } else { (uni_in(r, -0.01, 0.01), uni_in(r, -0.01, 0.01)) };
    let z0 = uni_in(r, -0.9, 0.9);
    let slope = uni_in(r, -2.0, 2.0);
    let jitter = if r.chance(1, 2) { 0.0 } else { uni_in(r, 0.0, 0.002) };
    let (glo, ghi) = if gap { (uni_in(r, 0.12, 0.14), uni_in(r, 0.15, 0.17)) } else { (1.0, 0.0) };
    let mut out = Vec::new();
    for k in 0..n {
        let rr = R_IN + 0.001 + (R_OUT - R_IN - 0.002) * (k as f64 + uni(r)) / n as f64;
        if rr > glo && rr < ghi {
            continue;
        }
        let s = (rr / (2.0 * big_r)).min(1.0);
        let delta = 2.0 * s.asin() * sign;
        let ang = a + PI + delta;
        let x = cx + big_r * ang.cos() + ox + uni_in(r, -jitter, jitter);
        let y = cy + big_r * ang.sin() + oy + uni_in(r, -jitter, jitter);
        let z = z0 + slope * rr + uni_in(r, -jitter, jitter);
        out.push((x.hypot(y), y.atan2(x), z));
    }
    out
}

struct Cloud {
    label: &'static str,
    pts: Vec<SpacePoint>,
}

fn gen_cloud(r: &mut Rng, max_n: usize) -> Cloud {
    let kind = r.below(10);
    let quant = r.chance(1, 2);
    let mut raw: Vec<(f64, f64, f64)> = Vec::new();
    let label;
    match kind {
        0 => {
            // uniform cloud in the drift volume (sometimes beyond it)
            label = "random-cloud";
            let n = r.boundary(max_n as u64) as usize;
            let wide = r.chance(1, 5);
            for _ in 0..n {
                raw.push(random_point(r, wide));
            }
        }
        1 => {
            // dense blob: many points within a few cm, rich 3 cm neighbourhoods
            label = "dense-blob";
            let n = r.range(0, (max_n as u64).min(150)) as usize;
            let c = random_point(r, false);
            let w = uni_in(r, 0.005, 0.08);
            for _ in 0..n {
                raw.push((
                    (c.0 + uni_in(r, -w, w)).max(0.02),
                    c.1 + uni_in(r, -w, w) / c.0,
                    c.2 + uni_in(r, -w, w),
                ));
            }
        }
        2 => {
            // one track with a number of points around the minimum of 13
            label = "track-near-13";
            let n = r.pick(&[11usize, 12, 13, 14, 15, 16, 26, 27]);
            raw.extend(track_points(r, n, false));
            for _ in 0..r.below(6) {
                raw.push(random_point(r, false));
            }
        }
        _ => {
            // 1-4 tracks + noise
            let nt = r.range(1, 4) as usize;
            let budget = r.range(20, max_n as u64) as usize;
            let back_to_back = r.chance(1, 4);
            let same_xy = r.chance(1, 5);
            label = if back_to_back {
                "tracks-back-to-back"
            } else if same_xy {
                "tracks-same-xy"
            } else {
                "tracks-noise"
            };
            // at most 150 points per track (a physical track has a few dozen): the remaining budget is noise
            let per = (budget * 3 / 4 / nt).max(5).min(150);
            for t in 0..nt {
                let n = if r.chance(1, 4) { r.range(5, per as u64) } else { r.range((per as u64 / 2).max(5), per as u64) } as usize;
                let gap = r.chance(1, 5);
                let pts = track_points(r, n, gap);
                if t == 0 && back_to_back {
                    // the same circle continued on the other side of the origin
                    raw.extend(pts.iter().map(|&(rr, ph, z)| (rr, ph + PI, -z)));
                }
                if t == 0 && same_xy {
                    let dz = uni_in(r, 0.02, 0.3);
                    raw.extend(pts.iter().map(|&(rr, ph, z)| (rr, ph, z + dz)));
                }
                raw.extend(pts);
            }
            let noise = r.below((budget.saturating_sub(raw.len()).max(budget / 4) + 1) as u64) as usize;
            for _ in 0..noise {
                raw.push(random_point(r, false));
            }
        }
    }
    if quant {
        raw = raw.into_iter().map(quantize).collect();
    }
    // exact duplicates of points
    if !raw.is_empty() && r.chance(1, 2) {
        let nd = r.range(1, (raw.len() as u64 / 4).max(1)) as usize;
        for _ in 0..nd {
            let p = raw[r.below(raw.len() as u64) as usize];
            let copies = r.range(1, 3);
            for _ in 0..copies {
                raw.push(p);
            }
        }
    }
    // signed zeros: `==`-equal points with different bit patterns
    if !raw.is_empty() && r.chance(1, 16) {
        let z = raw[0];
        raw.push((z.0, 0.0, z.2));
        raw.push((z.0, -0.0, z.2));
        raw.push((z.0, 0.0, 0.0));
        raw.push((z.0, -0.0, -0.0));
    }
    // input order
    match r.below(3) {
        0 => {}
        1 => {
            for i in (1..raw.len()).rev() {
                let j = r.below(i as u64 + 1) as usize;
                raw.swap(i, j);
            }
        }
        _ => raw.sort_by(|a, b| a.2.partial_cmp(&b.2).unwrap()),
    }
    raw.truncate(max_n);
    Cloud {
        label,
        pts: raw.into_iter().map(|(a, b, c)| sp_f(a, b, c)).collect(),
    }
}

fn emit_cluster(s: &mut Sink, label: &str, pts: &[SpacePoint]) {
    let c = classify(pts);
    let tabs: Vec<String> = c.reps.iter().map(|&p| rle_bins(&hough_bins(p))).collect();
    let rows = near_rows(&c.reps);
    let cs = classes_str(&c.reps);
    let ps = join(&c.ids, ",");
    let obs = observe_cluster(pts);
    let nontrivial = obs.starts_with("ok") && !obs.starts_with("ok - |");
    s.put(
        &format!("c15 {} {} {} {}", cs, ps, join(&tabs, ";"), near_str(&rows)),
        &obs,
        label,
        nontrivial,
    );
    s.put(&format!("relc15 {} {}", cs, ps), &rel_cluster(pts), &format!("rel-{label}"), nontrivial);
}
fn emit_largest(s: &mut Sink, label: &str, pts: &[SpacePoint]) {
    let c = classify(pts);
    let rows = near_rows(&c.reps);
    s.put(
        &format!("c15lc {} {} {}", classes_str(&c.reps), join(&c.ids, ","), near_str(&rows)),
        &observe_largest(pts),
        label,
        pts.len() > 1,
    );
}

pub fn run(tier: &str, seed: u64, s: &mut Sink) {
    let mut r = Rng::new(seed ^ 0xC15);
    let thorough = tier == "thorough";
    // fixed small cases first
    emit_cluster(s, "empty", &[]);
    emit_cluster(s, "single", &[sp_f(0.15, 0.3, 0.1)]);
    let same: Vec<SpacePoint> = (0..20).map(|_| sp_f(0.15, 0.3, 0.1)).collect();
    for n in [12usize, 13, 14, 20] {
        emit_cluster(s, "identical-points", &same[..n]);
    }
    let n_clouds = if thorough { 3000 } else { 500 };
    for k in 0..n_clouds {
        let max_n = if thorough {
            match k % 25 {
                0 => 2000,
                1..=4 => 800,
                _ => 300,
            }
        } else {
            match k % 10 {
                0 => 300,
                1..=3 => 120,
                _ => 60,
            }
        };
        let c = gen_cloud(&mut r, max_n);
        emit_cluster(s, c.label, &c.pts);
        // the flood fill alone on a (shuffled) part of the cloud
        if !c.pts.is_empty() {
            let m = r.range(1, c.pts.len().min(120) as u64) as usize;
            let start = r.below((c.pts.len() - m + 1) as u64) as usize;
            emit_largest(s, "largest-cluster-part", &c.pts[start..start + m]);
        }
    }
    // flood fill on dense blobs (rich neighbourhood structure, ties in cluster sizes)
    let n_lc = if thorough { 4000 } else { 600 };
    for _ in 0..n_lc {
        let n = r.boundary(40) as usize;
        let w = uni_in(&mut r, 0.005, 0.06);
        let quant = r.chance(1, 2);
        let mut pts = Vec::new();
        for _ in 0..n {
            let mut p = (0.15 + uni_in(&mut r, -w, w), uni_in(&mut r, -w, w) / 0.15, uni_in(&mut r, -w, w));
            if quant {
                p = quantize(p);
            }
            pts.push(sp_f(p.0, p.1, p.2));
            if r.chance(1, 8) {
                pts.push(sp_f(p.0, p.1, p.2));
            }
        }
        emit_largest(s, "largest-cluster-blob", &pts);
    }
    // vertexing
    emit_vertex(s, "tracks-empty", &[]);
    let n_v = if thorough { 20000 } else { 2500 };
    for _ in 0..n_v {
        let (label, t) = gen_tracks(&mut r);
        emit_vertex(s, label, &t);
    }
    // get_bins alone: the loop structure of the model against the real bins (drawn last, so that the cases above
    // are the ones they were before these lines existed)
    for (r0, phi) in [(R_IN, 0.0), (R_IN, PI), (R_IN, -PI), (R_OUT, 0.5 * PI), (R_OUT, -0.5 * PI), (0.15, -0.0), (0.15, 2.0 * PI / 230.0)] {
        emit_bins(s, "bins-fixed", sp_f(r0, phi, 0.0));
    }
    let n_b = if thorough { 6000 } else { 600 };
    for k in 0..n_b {
        let (label, p) = match k % 4 {
            0 => ("bins-volume", random_point(&mut r, false)),
            1 => ("bins-wide", random_point(&mut r, true)),
            2 => ("bins-quantized", quantize(random_point(&mut r, false))),
            // phi on a multiple of delta_theta (sign changes of rho at bin edges)
            _ => {
                let q = random_point(&mut r, false);
                ("bins-theta-edge", (q.0, 2.0 * PI / 230.0 * (r.below(231) as f64 - 115.0), q.2))
            }
        };
        emit_bins(s, label, sp_f(p.0, p.1, p.2));
    }
}

/// implementation observation for a case line of this module (None: not one of mine)
pub fn observe_line(line: &str) -> Option<String> {
    let f: Vec<&str> = line.split(' ').collect();
    match f[0] {
        "c15" if f.len() == 5 => Some(match parse_points(f[1], f[2]) {
            Some(p) => observe_cluster(&p),
            None => "bad-case".to_string(),
        }),
        "c15lc" if f.len() == 4 => Some(match parse_points(f[1], f[2]) {
            Some(p) => observe_largest(&p),
            None => "bad-case".to_string(),
        }),
        "relc15" if f.len() == 3 => Some(match parse_points(f[1], f[2]) {
            Some(p) => rel_cluster(&p),
            None => "bad-case".to_string(),
        }),
        "c15v" if f.len() == 7 => Some(match parse_tracks(f[1], f[2]) {
            Some(t) => observe_vertex(&t),
            None => "bad-case".to_string(),
        }),
        "c15bc" if f.len() == 5 => Some(match parse_tracks(f[1], f[2]) {
            Some(t) => observe_beamline(&t),
            None => "bad-case".to_string(),
        }),
        "c15bins" if f.len() == 3 => Some(match parse_points(f[1], "0") {
            Some(p) => observe_bins(p[0]),
            None => "bad-case".to_string(),
        }),
        "relc15v" if f.len() == 3 => Some(match parse_tracks(f[1], f[2]) {
            Some(t) => rel_vertex(&t),
            None => "bad-case".to_string(),
        }),
        _ => None,
    }
}
