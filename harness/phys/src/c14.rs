// C14: reconstruction stages are total on physical inputs and return finite geometry.
//
// All lines of this module are implementation-only oracles (`rel…`, a TEST on the real code under catch_unwind):
// the observation is `holds` or `fails <detail>`; the model runner answers `holds` (the class the skeleton
// theorems predict on the named numeric hypotheses: never panic; returned parameters finite; t in [-pi, pi]).
//
//   rel14p <n> <r phi z>*n          cluster_spacepoints -> Track::try_from(each cluster) -> find_vertices
//   rel14f <n> <r phi z>*n          Track::try_from(Cluster::verif_from_points(points)), n >= 3
//   rel14v <k> <x0 y0 z0 r phi0 h t_inner t_outer>*k      find_vertices on tracks built by Track::verif_from_params
//   rel14kf-tinyphi-p / rel14kf-tinyphi-f <n> <r phi z>*n     the oracles of rel14p / rel14f on the class of the OPEN
//                                   FINDING `tinyphi` (F9).  The tag is NOT the generator's intent: every point set,
//                                   whatever family produced it, is tagged by the checked recogniser `tinyphi_class`
//                                   below (template-point circle of radius >= 1e136 m, not exactly collinear in the
//                                   sense of the code), and `observe_line` recomputes it: a line that claims the tag
//                                   for a set outside the class is answered `fails not-in-class-tinyphi`.
//   cls14 <n> <r phi z>*n           differential: the recogniser itself (`tinyphi` / `ordinary`) against the extracted
//                                   Coq definition Fit.tinyphi_class (same operations in the same order)
//   fit3 <n> <r phi z>*n            differential: `noinit` / `track` of Track::try_from against the model of
//                                   three_template_points (coq/Recon/Fit.v: fit_outcome)
// floats are 16 hex digits of the bit pattern.
use crate::c16::{bits, log_uniform, phase, pitch, sign, spoint, unbits, uniform};
use crate::util::*;
use alpha_g_physics::reconstruction::{
    cluster_spacepoints, find_vertices, verif_helix_at, verif_helix_closest_t, verif_helix_closest_to_beamline, Cluster,
    Track,
    TryTrackFromClusterError,
};
use alpha_g_physics::SpacePoint;
use std::f64::consts::PI;
use uom::si::length::meter;

pub type P3 = [f64; 3];

// ------------------------------------------------------------------------------------------------
// panics: the observation names the panic (message and source location), so that different panic mechanisms are
// distinguishable: `fails panic:<first 60 characters of the message> @<file>:<line>`
// ------------------------------------------------------------------------------------------------
thread_local! {
    static LAST_PANIC: std::cell::RefCell<String> = std::cell::RefCell::new(String::new());
}
static HOOK: std::sync::Once = std::sync::Once::new();

/// run f catching panics; Err(description of the panic) on panic.  Installs (once) a silent panic hook that records
/// message and location of the panic of the current thread.
pub fn catch_msg<T>(f: impl FnOnce() -> T + std::panic::UnwindSafe) -> Result<T, String> {
    HOOK.call_once(|| {
        std::panic::set_hook(Box::new(|info| {
            let msg = if let Some(s) = info.payload().downcast_ref::<&str>() {
                s.to_string()
            } else if let Some(s) = info.payload().downcast_ref::<String>() {
                s.clone()
            } else {
                "<non-string payload>".to_string()
            };
            let msg: String = msg.chars().map(|c| if c.is_control() { ' ' } else { c }).take(60).collect();
            let loc = match info.location() {
                Some(l) => format!("{}:{}", l.file().rsplit('/').next().unwrap_or(""), l.line()),
                None => "?".to_string(),
            };
            LAST_PANIC.with(|p| *p.borrow_mut() = format!("{msg} @{loc}"));
        }));
    });
    LAST_PANIC.with(|p| p.borrow_mut().clear());
    match std::panic::catch_unwind(f) {
        Ok(v) => Ok(v),
        Err(_) => Err(LAST_PANIC.with(|p| p.borrow().clone())),
    }
}
fn panic_obs(m: String) -> (String, String) {
    (format!("fails panic:{m}"), "panic".to_string())
}

fn in_range(t: f64) -> bool {
    t >= -PI && t <= PI
}

/// checks on a returned track; None = fine
fn track_defect(t: &Track) -> Option<String> {
    let p = t.verif_params();
    if !p.iter().all(|x| x.is_finite()) {
        return Some(format!(
            "ok-track finite=0 params={}",
            p.iter().map(|x| bits(*x)).collect::<Vec<_>>().join(",")
        ));
    }
    let (ti, to) = (t.t_inner(), t.t_outer());
    if !in_range(ti) || !in_range(to) {
        return Some(format!("ok-track finite=1 t_inner={} t_outer={} out-of-range-or-nan", bits(ti), bits(to)));
    }
    for tt in [ti, to] {
        let c = t.at(tt);
        if !(c.x.get::<meter>().is_finite() && c.y.get::<meter>().is_finite() && c.z.get::<meter>().is_finite()) {
            return Some("ok-track at(t) not finite".to_string());
        }
    }
    None
}

fn vertex_defect(tracks: Vec<Track>) -> Option<String> {
    let n = tracks.len();
    let res = find_vertices(tracks);
    let mut count = res.remainder.len() + res.secondaries.iter().map(|v| v.tracks.len()).sum::<usize>();
    if let Some(v) = &res.primary {
        count += v.tracks.len();
        let p = v.position;
        if !(p.x.get::<meter>().is_finite() && p.y.get::<meter>().is_finite() && p.z.get::<meter>().is_finite()) {
            return Some("vertex position not finite".to_string());
        }
        for (_, t) in &v.tracks {
            if !in_range(*t) {
                return Some(format!("vertex track t={} out-of-range-or-nan", bits(*t)));
            }
        }
    }
    if count != n {
        return Some(format!("vertexing lost tracks {count} != {n}"));
    }
    None
}

// ------------------------------------------------------------------------------------------------
// the class of the open finding `tinyphi` (F9): a CHECKED RECOGNISER on the point set
// ------------------------------------------------------------------------------------------------
// MEASURED on the unchanged implementation (Track::try_from on 3, 14, 17 and 20 near-collinear points, radii on a grid
// and random in 0.105..0.2 m, phi_i = phi0 + s*u_i with u_i uniform in [-1, 1], s from 1e-300 to 1e-19 rad in steps of
// 1/2 and 1/4 decade, phi0 in {0, 1e-250, 1e-160, 1e-145, 1e-135, 1e-130, 1e-128 .. 1e-100, 1e-30, 0.3, pi/2, pi, -2.5},
// z equal / steps of 1e-300 m / steps of 0.1 mm .. 1 cm; 3.5e5 fits).  Every failure is the SAME panic, `found NaN in
// track_fitting::cost_function` (track_fitting.rs:265), raised either while NelderMead::init evaluates the initial
// simplex (corpus witness at 1e-165 rad) or later from NelderMead::next_iter (reviewer's witness at 1e-146 rad).
// What decides is the radius R of the circle through the three template points (the initial guess of the fit),
// whatever produced it -- an angular scatter s around phi = 0, or the rounding of r*cos(phi), r*sin(phi) for a common
// tiny phi (phi0 = 1e-130 with s = 0 fails like s = 1e-147):
//   equal z (or z steps of 1e-300 m):  no failure among 2.0e4 fits with 1e130 <= R < 10^137.5 m; the smallest failing
//                                      radius is 10^137.5 m; 99.9 % fail for 1e138 <= R < 1e148 m (a few fits survive,
//                                      up to R = 1e147 m); all fail above
//   unequal z:                         3 failures among 8.6e3 fits with 1e138 <= R < 1e144 m (14 points, at R =
//                                      10^138.7 .. 1e140 m), none among 4.0e3 with 1e144 <= R < 1e152 m; all fail for
//                                      R >= 10^153.4 m
//   in terms of the angular scatter    equal z fails for s <= 10^-137.5 rad (all but about 1 in 300 for s <= 1e-140),
//   (phi0 = 0):                        unequal z for s <= 10^-154.5 rad; nothing fails for s >= 1e-137 rad, and nothing
//                                      fails for |phi0| >= 1e-100 at any s
// Exactly collinear template points (the code's own test, NoInitialParameters) never panic.
// The class is therefore:  the template points are not collinear in the sense of the code, and the circle through them
// has radius R >= R_CLASS = 1e136 m (1.5 decades below the smallest failing radius seen; the boundary is fuzzy because
// it depends on where Nelder-Mead wanders in at most 100 iterations).  Sets with R just below (1e129 <= R < 1e136 m,
// label `guard`) are ordinary cases that must hold.
pub const R_CLASS: f64 = 1e136;

/// Veltkamp / Dekker: the rounding error of the product p = fl(a * b), by plain f64 operations (no fma), so that the
/// Coq definition (Fit.two_prod_err) performs the same operations
fn two_prod_err(a: f64, b: f64, p: f64) -> f64 {
    let split = |x: f64| -> (f64, f64) {
        let c = 134217729.0 * x;
        let hi = c - (c - x);
        (hi, x - hi)
    };
    let (ah, al) = split(a);
    let (bh, bl) = split(b);
    al * bl - (((p - ah * bh) - al * bh) - ah * bl)
}

/// the three template points as three_template_points (track_fitting.rs:129) selects them: smallest r (the first of
/// equals), largest r (the last of equals), r closest to the mean of the two (the first of equals)
fn template_indices(pts: &[P3]) -> Option<(usize, usize, usize)> {
    if pts.len() < 3 || pts.iter().any(|p| p[0].is_nan()) {
        return None;
    }
    let (mut first, mut last) = (0, 0);
    for (i, p) in pts.iter().enumerate() {
        if p[0] < pts[first][0] {
            first = i;
        }
        if p[0] >= pts[last][0] {
            last = i;
        }
    }
    let mid = (pts[first][0] + pts[last][0]) / 2.0;
    let mut middle = 0;
    for (i, p) in pts.iter().enumerate() {
        if (p[0] - mid).abs() < (pts[middle][0] - mid).abs() {
            middle = i;
        }
    }
    Some((first, middle, last))
}

/// None: fewer than 3 points / NaN radius / template points collinear in the sense of the code (track_fitting.rs:161);
/// otherwise Some((num, cross)) with R = num / (2 cross) the radius of the circle through the template points
/// (num = product of the three side lengths, cross = |twice the signed area|, exact up to its final rounding)
fn template_circle(pts: &[P3]) -> Option<(f64, f64)> {
    let (f, m, l) = template_indices(pts)?;
    let sp = points_of(&[pts[f], pts[m], pts[l]]);
    // x(), y() of the library: r * cos(phi), r * sin(phi)
    let xy: Vec<(f64, f64)> = sp.iter().map(|p| (p.x().get::<meter>(), p.y().get::<meter>())).collect();
    let (fx, fy, mx, my, lx, ly) = (xy[0].0, xy[0].1, xy[1].0, xy[1].1, xy[2].0, xy[2].1);
    let (a, b, c, d) = (lx - fx, my - fy, mx - fx, ly - fy);
    let (p1, p2) = (a * b, c * d);
    if p1 == p2 {
        return None;
    }
    let (e1, e2) = (two_prod_err(a, b, p1), two_prod_err(c, d, p2));
    let cross = ((p1 - p2) + (e1 - e2)).abs();
    let side = |u: f64, v: f64| (u * u + v * v).sqrt();
    let num = side(c, b) * side(lx - mx, ly - my) * side(a, d);
    Some((num, cross))
}

/// the recogniser of the class `tinyphi`
pub fn tinyphi_class(pts: &[P3]) -> bool {
    match template_circle(pts) {
        Some((num, cross)) => num >= 2.0 * R_CLASS * cross,
        None => false,
    }
}

/// band of the template circle radius, for the labels
fn radius_band(pts: &[P3]) -> &'static str {
    match template_circle(pts) {
        None => "R=collinear",
        Some((num, cross)) => {
            let r = num / (2.0 * cross);
            if num >= 2.0 * R_CLASS * cross {
                "R>=1e136(class)"
            } else if r >= 1e129 {
                "R=1e129..1e136(guard)"
            } else if r >= 1e100 {
                "R=1e100..1e129"
            } else if r >= 1e20 {
                "R=1e20..1e100"
            } else {
                "R<1e20"
            }
        }
    }
}

/// rel14p lines: some cluster the library finds in the point set is in the class
fn pipeline_in_class(pts: &[P3]) -> bool {
    let v = pts.to_vec();
    catch(move || {
        cluster_spacepoints(points_of(&v)).clusters.iter().any(|c| {
            let q: Vec<P3> =
                c.iter().map(|p| [p.r.get::<meter>(), p.phi.get::<uom::si::angle::radian>(), p.z.get::<meter>()]).collect();
            tinyphi_class(&q)
        })
    })
    .unwrap_or(false)
}

/// the tag of a fit line / a pipeline line, decided by the recogniser
fn fit_tag(pts: &[P3]) -> &'static str {
    if tinyphi_class(pts) {
        "rel14kf-tinyphi-f"
    } else {
        "rel14f"
    }
}
fn pipeline_tag(pts: &[P3]) -> &'static str {
    if pipeline_in_class(pts) {
        "rel14kf-tinyphi-p"
    } else {
        "rel14p"
    }
}

pub fn points_of(v: &[P3]) -> Vec<SpacePoint> {
    v.iter().map(|p| spoint(p[0], p[1], p[2])).collect()
}

/// (observation, outcome class for the histogram)
fn pipeline(pts: Vec<P3>) -> (String, String) {
    let r = catch_msg(move || {
        let n = pts.len();
        let res = cluster_spacepoints(points_of(&pts));
        let total: usize = res.clusters.iter().map(|c| c.iter().count()).sum::<usize>() + res.remainder.len();
        if total != n {
            return (format!("fails clustering lost points {total} != {n}"), "fail".to_string());
        }
        let nclusters = res.clusters.len();
        let mut tracks = Vec::new();
        let mut noinit = 0;
        for c in res.clusters {
            match Track::try_from(c) {
                Ok(t) => {
                    if let Some(d) = track_defect(&t) {
                        return (format!("fails {d}"), "fail".to_string());
                    }
                    tracks.push(t);
                }
                Err(TryTrackFromClusterError::NoInitialParameters) => noinit += 1,
            }
        }
        let nt = tracks.len();
        if let Some(d) = vertex_defect(tracks) {
            return (format!("fails {d}"), "fail".to_string());
        }
        ("holds".to_string(), format!("clusters={} tracks={} noinit={}", nclusters.min(3), nt.min(3), noinit.min(2)))
    });
    r.unwrap_or_else(panic_obs)
}

fn fit_only(pts: Vec<P3>) -> (String, String) {
    let r = catch_msg(move || match Track::try_from(Cluster::verif_from_points(points_of(&pts))) {
        Ok(t) => match track_defect(&t) {
            Some(d) => (format!("fails {d}"), "fail".to_string()),
            None => ("holds".to_string(), "ok-track".to_string()),
        },
        Err(TryTrackFromClusterError::NoInitialParameters) => ("holds".to_string(), "err-noinit".to_string()),
    });
    r.unwrap_or_else(panic_obs)
}

fn fit_class(pts: Vec<P3>) -> String {
    let r = catch(move || match Track::try_from(Cluster::verif_from_points(points_of(&pts))) {
        Ok(_) => "track".to_string(),
        Err(TryTrackFromClusterError::NoInitialParameters) => "noinit".to_string(),
    });
    r.unwrap_or_else(|| "panic".to_string())
}

fn vertex_only(trs: Vec<[f64; 8]>) -> (String, String) {
    let r = catch_msg(move || {
        let tracks: Vec<Track> = trs
            .iter()
            .map(|p| Track::verif_from_params([p[0], p[1], p[2], p[3], p[4], p[5]], p[6], p[7]))
            .collect();
        let res = find_vertices(tracks.clone());
        let class = match &res.primary {
            Some(v) => format!("primary={}", v.tracks.len().min(4)),
            None => "no-primary".to_string(),
        };
        match vertex_defect(tracks) {
            Some(d) => (format!("fails {d}"), "fail".to_string()),
            None => ("holds".to_string(), class),
        }
    });
    r.unwrap_or_else(panic_obs)
}

pub fn parse_floats(f: &[&str]) -> Option<Vec<f64>> {
    f.iter().map(|s| unbits(s)).collect()
}

pub fn observe_line(line: &str) -> Option<String> {
    let f: Vec<&str> = line.split(' ').collect();
    match f[0] {
        "rel14p" | "rel14f" | "fit3" | "cls14" | "rel14kf-tinyphi-p" | "rel14kf-tinyphi-f" => {
            let n: usize = f.get(1)?.parse().ok()?;
            if f.len() != 2 + 3 * n {
                return None;
            }
            let v = parse_floats(&f[2..])?;
            let pts: Vec<P3> = v.chunks(3).map(|c| [c[0], c[1], c[2]]).collect();
            Some(match f[0] {
                "rel14p" => pipeline(pts).0,
                "rel14f" => fit_only(pts).0,
                // the known-finding tags are honoured only for point sets the recogniser puts into the class
                "rel14kf-tinyphi-p" if !pipeline_in_class(&pts) => "fails not-in-class-tinyphi".to_string(),
                "rel14kf-tinyphi-f" if !tinyphi_class(&pts) => "fails not-in-class-tinyphi".to_string(),
                "rel14kf-tinyphi-p" => pipeline(pts).0,
                "rel14kf-tinyphi-f" => fit_only(pts).0,
                "cls14" => (if tinyphi_class(&pts) { "tinyphi" } else { "ordinary" }).to_string(),
                _ => fit_class(pts),
            })
        }
        "rel14v" => {
            let n: usize = f.get(1)?.parse().ok()?;
            if f.len() != 2 + 8 * n {
                return None;
            }
            let v = parse_floats(&f[2..])?;
            let trs: Vec<[f64; 8]> = v.chunks(8).map(|c| [c[0], c[1], c[2], c[3], c[4], c[5], c[6], c[7]]).collect();
            Some(vertex_only(trs).0)
        }
        _ => None,
    }
}

// ------------------------------------------------------------------------------------------------
// generators
// ------------------------------------------------------------------------------------------------
const RMIN: f64 = 0.05;
const RMAX: f64 = 0.25;
const ZMAX: f64 = 1.3;

fn cyl(x: f64, y: f64, z: f64) -> P3 {
    [x.hypot(y), y.atan2(x), z]
}
fn inside(p: &P3) -> bool {
    p[0] >= RMIN && p[0] <= RMAX && p[2].abs() <= ZMAX && p[0].is_finite() && p[1].is_finite()
}
fn perturbation(r: &mut Rng) -> f64 {
    match r.below(6) {
        0 => 0.0,
        1 => r.pick(&[1e-18, 1e-17, 1e-16, 1e-15, 1e-12, 1e-9, 1e-6, 1e-3, 1e-2]),
        _ => log_uniform(r, 1e-18, 1e-2),
    }
}
fn jitter(r: &mut Rng, p: P3, eps: f64) -> P3 {
    if eps == 0.0 {
        return p;
    }
    let q = [
        p[0] + eps * uniform(r, -1.0, 1.0),
        p[1] + eps / p[0].max(RMIN) * uniform(r, -1.0, 1.0),
        p[2] + eps * uniform(r, -1.0, 1.0),
    ];
    [q[0].clamp(RMIN, RMAX), q[1], q[2].clamp(-ZMAX, ZMAX)]
}

/// points of a helix (parameters as in the library: centre, radius, phase, pitch) that lie in the volume
fn helix_points(r: &mut Rng, n: usize, h: f64, eps: f64) -> Vec<P3> {
    // a circle that crosses the annulus: passes at distance d0 from the axis, radius rad
    let rad = match r.below(6) {
        0 => r.pick(&[0.03, 5.0, 0.15, 0.125]),
        _ => log_uniform(r, 0.03, 5.0),
    };
    let d0 = match r.below(4) {
        0 => 0.0,
        _ => uniform(r, 0.0, 0.1),
    };
    let dir = uniform(r, -PI, PI);
    // centre at distance rad + d0 (or |rad - d0|) from the axis
    let dc = if r.chance(1, 2) { rad + d0 } else { (rad - d0).abs() };
    let (x0, y0) = (dc * dir.cos(), dc * dir.sin());
    let z0 = uniform(r, -1.0, 1.0);
    let phi0 = uniform(r, -PI, PI);
    let hp = [x0, y0, z0, rad, phi0, h];
    let mut out = Vec::new();
    // sample t densely, keep what is in the volume, then thin out to n points
    let m = 4000;
    let mut cand = Vec::new();
    for i in 0..m {
        let t = -PI + 2.0 * PI * (i as f64) / (m as f64);
        let c = verif_helix_at(hp, t);
        let p = cyl(c.x.get::<meter>(), c.y.get::<meter>(), c.z.get::<meter>());
        if inside(&p) {
            cand.push(p);
        }
    }
    if cand.is_empty() {
        return out;
    }
    for k in 0..n {
        let p = if r.chance(1, 3) {
            cand[r.below(cand.len() as u64) as usize]
        } else {
            cand[(k * cand.len()) / n]
        };
        out.push(jitter(r, p, eps));
    }
    out
}

/// points on a straight line in x-y (exactly collinear where the coordinates allow it), any z behaviour
fn line_points(r: &mut Rng, n: usize, eps: f64) -> Vec<P3> {
    let mut out = Vec::new();
    match r.below(6) {
        5 => {
            // hits of one wire in one pad row: the same phi and the same z (or z in pad-row steps), radii
            // a few 0.1 mm to a few cm apart -- exactly collinear through the axis AND horizontal
            let phi = match r.below(3) {
                0 => r.pick(&[0.0, PI, PI / 2.0, 1.019, -0.798, 0.889, 0.905, 1.093]),
                _ => uniform(r, -PI, PI),
            };
            let z0 = uniform(r, -1.0, 1.0);
            let dz = r.pick(&[0.0, 0.0, 0.004, 1e-300]);
            let r1 = uniform(r, 0.105, 0.16);
            for i in 0..n {
                let rr = match r.below(3) {
                    0 => r1 + 0.0001 * i as f64,
                    1 => r1 + r.pick(&[0.002, 0.028, 0.01, 0.0]),
                    _ => r1 + uniform(r, 0.0, 0.03),
                };
                out.push([rr.min(RMAX), phi, (z0 + dz * (i % 3) as f64).clamp(-ZMAX, ZMAX)]);
            }
        }
        4 => {
            // radial line at phi = 0 with an angular scatter far below the float resolution elsewhere: circle radii up to
            // 1e130 m (the whole range of scatters, the class of the open finding `tinyphi` and its boundary are the
            // subject of `nearline_points`)
            let sc = log_uniform(r, 1e-130, 1e-19);
            let dz = r.pick(&[0.0, 0.01, 0.003, 1e-300]);
            let z0 = uniform(r, -1.0, 1.0);
            for i in 0..n {
                out.push([uniform(r, 0.105, 0.2), sc * uniform(r, -1.0, 1.0), (z0 + dz * i as f64).clamp(-ZMAX, ZMAX)]);
            }
        }
        0 => {
            // radial line: same phi, exact in x-y for phi in {0, pi, ...}
            let phi = match r.below(3) {
                0 => r.pick(&[0.0, PI, -PI, PI / 2.0, -PI / 2.0, PI / 4.0, 1.0, 0.5]),
                _ => uniform(r, -PI, PI),
            };
            for _ in 0..n {
                let p = [uniform(r, RMIN, RMAX), phi, uniform(r, -ZMAX, ZMAX)];
                out.push(jitter(r, p, eps));
            }
        }
        _ => {
            // general line a + s d
            let a = uniform(r, -0.2, 0.2);
            let th = uniform(r, -PI, PI);
            let (nx, ny) = (th.cos(), th.sin());
            let zs = uniform(r, -3.0, 3.0);
            let z0 = uniform(r, -1.0, 1.0);
            let mut tries = 0;
            while out.len() < n && tries < 50 * n + 100 {
                tries += 1;
                let s = uniform(r, -0.25, 0.25);
                let p = cyl(a * nx - s * ny, a * ny + s * nx, z0 + zs * s);
                if inside(&p) {
                    out.push(jitter(r, p, eps));
                }
            }
        }
    }
    out
}

fn origin_circle_points(r: &mut Rng, n: usize, eps: f64) -> Vec<P3> {
    // circle through the origin: radius rad, centre direction phic: r = 2 rad cos(phi - phic)
    let rad = match r.below(4) {
        0 => r.pick(&[0.03, 0.125, 0.0625, 5.0, 0.1]),
        _ => log_uniform(r, 0.03, 5.0),
    };
    let phic = match r.below(4) {
        0 => r.pick(&[0.0, PI / 2.0, PI, -PI / 2.0]),
        _ => uniform(r, -PI, PI),
    };
    let h = pitch(r).0;
    let mut out = Vec::new();
    let mut tries = 0;
    while out.len() < n && tries < 50 * n + 100 {
        tries += 1;
        let rr = uniform(r, RMIN, RMAX.min(2.0 * rad));
        if rr > 2.0 * rad {
            continue;
        }
        let a = (rr / (2.0 * rad)).acos() * sign(r);
        let t = 2.0 * a; // angle at the centre
        let p = [rr, phic + a, (h / (2.0 * PI) * t).clamp(-ZMAX, ZMAX)];
        if inside(&p) {
            out.push(jitter(r, p, eps));
        }
    }
    out
}

/// near-collinear radial point sets over the WHOLE range of angular scatter: phi_i = phi0 + s * u_i, s log-uniform in
/// 1e-300 .. 1e-19 rad (continuous: no gap between the class of the open finding `tinyphi` and the ordinary cases),
/// phi0 = 0 or tiny (then the rounding of r*sin(phi0) is the scatter); z equal / steps of 1e-300 m / real steps.
/// Which of them are in the class is decided afterwards by the recogniser, not here.
fn nearline_points(r: &mut Rng, n: usize) -> Vec<P3> {
    let s = match r.below(8) {
        0 => r.pick(&[1e-300, 1e-250, 1e-200, 1e-160, 1e-150, 1e-146, 1e-140, 1e-138, 1e-137, 1e-136, 1e-130, 1e-100, 1e-19]),
        1 | 2 => log_uniform(r, 1e-160, 1e-125),
        _ => log_uniform(r, 1e-300, 1e-19),
    };
    let phi0 = match r.below(6) {
        0 => log_uniform(r, 1e-300, 1e-100) * sign(r),
        1 => log_uniform(r, 1e-135, 1e-110) * sign(r),
        _ => 0.0,
    };
    nearline_with(r, n, s, phi0)
}
fn nearline_with(r: &mut Rng, n: usize, s: f64, phi0: f64) -> Vec<P3> {
    let dz = r.pick(&[0.0, 0.0, 0.01, 0.003, 0.0001, 1e-300]);
    let z0 = uniform(r, -1.0, 1.0);
    let grid = r.chance(1, 2);
    let (r0, span) = (uniform(r, 0.105, 0.13), uniform(r, 0.02, 0.09));
    (0..n)
        .map(|i| {
            let rr = if grid { r0 + span * i as f64 / n as f64 } else { uniform(r, 0.105, 0.2) };
            [rr, phi0 + s * uniform(r, -1.0, 1.0), (z0 + dz * i as f64).clamp(-ZMAX, ZMAX)]
        })
        .collect()
}
/// boundary guard: the same shapes with the scatter chosen so that the template circle has a radius just BELOW the class
/// (1e129 <= R < 1e136 m); the label is given by the measured radius, not by this intent
fn guard_points(r: &mut Rng, n: usize) -> Vec<P3> {
    // R ~ chord^2 / (8 * sagitta), sagitta ~ 0.15 m * s: s = 1e-3 / R
    let s = 1e-3 / log_uniform(r, 1e129, 1e136);
    nearline_with(r, n, s, 0.0)
}

fn dyadic_points(r: &mut Rng, n: usize) -> Vec<P3> {
    let kr = r.pick(&[16.0, 32.0, 64.0, 128.0, 1024.0]);
    let kp = r.pick(&[1.0, 2.0, 4.0, 8.0, 64.0]);
    let kz = r.pick(&[1.0, 4.0, 16.0, 256.0]);
    let cart = r.chance(1, 3);
    let mut out = Vec::new();
    let mut tries = 0;
    while out.len() < n && tries < 100 * n + 100 {
        tries += 1;
        let p = if cart {
            let x = (uniform(r, -0.25, 0.25) * kr).round() / kr;
            let y = (uniform(r, -0.25, 0.25) * kr).round() / kr;
            cyl(x, y, (uniform(r, -ZMAX, ZMAX) * kz).round() / kz)
        } else {
            [
                (uniform(r, RMIN, RMAX) * kr).round() / kr,
                (uniform(r, -PI, PI) * kp).round() / kp,
                (uniform(r, -ZMAX, ZMAX) * kz).round() / kz,
            ]
        };
        if inside(&p) {
            out.push(p);
        }
    }
    out
}

fn random_points(r: &mut Rng, n: usize) -> Vec<P3> {
    (0..n)
        .map(|_| {
            [
                match r.below(10) {
                    0 => r.pick(&[RMIN, RMAX, 0.109, 0.182]),
                    _ => uniform(r, RMIN, RMAX),
                },
                uniform(r, -PI, PI),
                match r.below(10) {
                    0 => r.pick(&[0.0, ZMAX, -ZMAX]),
                    _ => uniform(r, -ZMAX, ZMAX),
                },
            ]
        })
        .collect()
}

/// one point set of the quantifier; returns the family label
pub fn family(r: &mut Rng, n: usize) -> (Vec<P3>, &'static str) {
    let eps = perturbation(r);
    match r.below(12) {
        0 | 1 | 2 => {
            let h = pitch(r).0;
            (helix_points(r, n, h, eps), "helix")
        }
        3 | 4 => (line_points(r, n, eps), "collinear"),
        5 => {
            // repeated points: a few distinct ones, each many times
            let k = r.range(1, 4) as usize;
            let base = random_points(r, k);
            ((0..n).map(|_| base[r.below(k as u64) as usize]).collect(), "repeated")
        }
        6 => {
            // equal radii
            let rr = uniform(r, RMIN, RMAX);
            let mut v = random_points(r, n);
            for p in v.iter_mut() {
                p[0] = rr;
            }
            if r.chance(1, 2) {
                // short arc so that it is one cluster
                let c = uniform(r, -PI, PI);
                for (i, p) in v.iter_mut().enumerate() {
                    p[1] = c + 0.02 * i as f64 / rr / 4.0;
                    p[2] = 0.01 * i as f64;
                    p[2] = p[2].clamp(-ZMAX, ZMAX);
                }
            }
            (v, "equal-radii")
        }
        7 => {
            // vertical line: same r, phi; z spread (step below 3 cm so that it is one cluster)
            let (rr, ph) = (uniform(r, RMIN, RMAX), uniform(r, -PI, PI));
            let z0 = uniform(r, -1.0, 1.0);
            let step = r.pick(&[0.0, 1e-17, 1e-6, 0.001, 0.02]);
            (
                (0..n).map(|i| jitter(r, [rr, ph, (z0 + step * i as f64).clamp(-ZMAX, ZMAX)], eps)).collect(),
                "vertical",
            )
        }
        8 => (origin_circle_points(r, n, eps), "origin-circle"),
        9 => (dyadic_points(r, n), "dyadic"),
        10 => (random_points(r, n), "random"),
        _ => {
            // 1..4 tracks + noise
            let k = r.range(1, 4) as usize;
            let mut v = Vec::new();
            for _ in 0..k {
                let h = pitch(r).0;
                let m = (n / (k + 1)).max(1);
                if r.chance(1, 4) {
                    v.extend(line_points(r, m, eps));
                } else {
                    v.extend(helix_points(r, m, h, eps));
                }
            }
            let rest = n.saturating_sub(v.len());
            v.extend(random_points(r, rest));
            v.truncate(n);
            (v, "tracks+noise")
        }
    }
}

fn size(r: &mut Rng, max: usize) -> usize {
    match r.below(10) {
        0 => r.pick(&[0usize, 1, 2, 3, 12, 13, 14]).min(max),
        1 => max,
        2 | 3 => r.range(13, 40.min(max as u64)) as usize,
        _ => r.range(0, max as u64) as usize,
    }
}

pub fn case_points(tag: &str, pts: &[P3]) -> String {
    let mut s = format!("{tag} {}", pts.len());
    for p in pts {
        for x in p {
            s.push(' ');
            s.push_str(&bits(*x));
        }
    }
    s
}

/// a track the vertex finder will consider: passes within a few cm of the beamline
pub fn track_params(r: &mut Rng) -> [f64; 8] {
    let rad = match r.below(6) {
        0 => r.pick(&[0.03, 5.0]),
        _ => log_uniform(r, 0.03, 5.0),
    };
    let dca = match r.below(6) {
        0 => 0.0,
        1 => r.pick(&[0.053, 0.0529, 0.0531, 0.1]),
        _ => uniform(r, 0.0, 0.06),
    };
    let dir = uniform(r, -PI, PI);
    let dc = if r.chance(1, 2) { rad + dca } else { (rad - dca).abs() };
    let (h, _) = pitch(r);
    let z0 = match r.below(5) {
        0 => 0.0,
        _ => uniform(r, -1.0, 1.0),
    };
    let hp = [dc * dir.cos(), dc * dir.sin(), z0, rad, phase(r), h];
    // t_inner / t_outer as the library computes them: closest t to a point near the inner / outer cathode
    let tt = |r: &mut Rng, rr: f64| -> f64 {
        match r.below(5) {
            0 => uniform(r, -PI, PI),
            1 => r.pick(&[PI, -PI, 0.0]),
            _ => {
                let t0 = uniform(r, -PI, PI);
                let c = verif_helix_at(hp, t0);
                let p = cyl(c.x.get::<meter>(), c.y.get::<meter>(), c.z.get::<meter>());
                verif_helix_closest_t(hp, spoint(rr, p[1], p[2].clamp(-ZMAX, ZMAX)), f64::EPSILON, 20)
            }
        }
    };
    let ti = tt(r, 0.109);
    let to = tt(r, 0.182);
    [hp[0], hp[1], hp[2], hp[3], hp[4], hp[5], ti, to]
}

pub fn run(tier: &str, seed: u64, s: &mut Sink) {
    let mut r = Rng::new(seed ^ 0xC14);
    let thorough = tier == "thorough";
    let max_n = if thorough { 2000 } else { 300 };
    let (n_pipe, n_fit, n_vtx, n_fit3) = if thorough { (1500, 6000, 6000, 20000) } else { (150, 500, 600, 2500) };

    for _ in 0..n_pipe {
        let n = size(&mut r, max_n);
        let (pts, fam) = family(&mut r, n);
        let (obs, class) = pipeline(pts.clone());
        s.put(&case_points(pipeline_tag(&pts), &pts), &obs, &format!("pipeline:{fam}:{class}"), pts.len() >= 13);
    }
    for _ in 0..n_fit {
        // the fit alone: cluster-sized point sets (3 ..), all degenerate families
        let n = match r.below(6) {
            0 => r.pick(&[3usize, 4, 13]),
            1 => r.range(13, (max_n as u64).min(400)) as usize,
            _ => r.range(3, 40) as usize,
        };
        let (mut pts, fam) = family(&mut r, n);
        if pts.len() < 3 {
            pts = random_points(&mut r, 3);
        }
        let (obs, class) = fit_only(pts.clone());
        s.put(&case_points(fit_tag(&pts), &pts), &obs, &format!("fit:{fam}:{class}"), true);
    }
    for _ in 0..n_vtx {
        let k = r.range(0, 8) as usize;
        let mut trs: Vec<[f64; 8]> = Vec::new();
        let shared_z = uniform(&mut r, -1.0, 1.0);
        let tie = r.below(6);
        for i in 0..k {
            let mut t = track_params(&mut r);
            match tie {
                0 if i > 0 && r.chance(1, 2) => t = trs[r.below(i as u64) as usize], // identical tracks
                1 => t[2] = shared_z,                                                 // same z0
                3 | 4 => {
                    // same z of closest approach to the beamline (exactly, or within 2 cm): a common vertex
                    let zb = verif_helix_closest_to_beamline([t[0], t[1], t[2], t[3], t[4], t[5]]).z.get::<meter>();
                    let dz = if tie == 3 { 0.0 } else { uniform(&mut r, -0.02, 0.02) };
                    t[2] = (t[2] - zb + shared_z + dz).clamp(-3.0, 3.0);
                }
                2 if i > 0 => t[3] = trs[0][3],                                       // equal radii (ties in the radius sums)
                _ => {}
            }
            trs.push(t);
        }
        let (obs, class) = vertex_only(trs.clone());
        let mut c = format!("rel14v {}", trs.len());
        for t in &trs {
            for x in t {
                c.push(' ');
                c.push_str(&bits(*x));
            }
        }
        s.put(&c, &obs, &format!("vertex:k={k}:{class}"), k >= 2);
    }
    // near-collinear sets over the whole range of angular scatter 1e-300 .. 1e-19 rad, and the boundary guard just below
    // the class of the open finding `tinyphi`.  The tag (ordinary / known finding) is computed by the recogniser from the
    // point set; the label names the measured band of the template circle radius.
    for i in 0..(if thorough { 12000 } else { 1200 }) {
        let n = match i % 4 {
            _ if i % 6 == 1 => r.range(13, 24) as usize, // pipeline lines: cluster-sized
            0 => 3,
            1 => r.range(3, 8) as usize,
            _ => r.range(13, 24) as usize,
        };
        let (pts, fam) = if i % 3 == 2 { (guard_points(&mut r, n), "guard-intent") } else { (nearline_points(&mut r, n), "nearline") };
        let band = radius_band(&pts);
        if i % 6 == 1 {
            let (obs, class) = pipeline(pts.clone());
            s.put(&case_points(pipeline_tag(&pts), &pts), &obs, &format!("{fam}:pipeline:{band}:{class}"), true);
        } else {
            let (obs, class) = fit_only(pts.clone());
            s.put(&case_points(fit_tag(&pts), &pts), &obs, &format!("{fam}:fit:{band}:{class}"), true);
        }
        // the recogniser itself against its Coq definition
        let cls = if tinyphi_class(&pts) { "tinyphi" } else { "ordinary" };
        s.put(&case_points("cls14", &pts), cls, &format!("cls14:{band}"), true);
    }
    // hits of one wire in one pad row (same phi, same z, radii 0.1 mm .. 3 cm apart) at many azimuths: exactly
    // collinear through the axis in exact arithmetic, but the rounded x, y are not: either NoInitialParameters or a
    // circle of radius ~1e14 m whose subtended angle rounds to exactly 0 with first.z == last.z
    for i in 0..(if thorough { 1500 } else { 150 }) {
        let phi = if i % 3 == 0 { -PI + 2.0 * PI * (i as f64) / 1500.0 } else { uniform(&mut r, -PI, PI) };
        let r1 = r.pick(&[0.12, 0.123, 0.11, 0.15]) + if i % 2 == 0 { 0.0 } else { uniform(&mut r, 0.0, 0.01) };
        let z = if i % 4 == 0 { 0.0 } else { uniform(&mut r, -1.0, 1.0) };
        let mut pts: Vec<P3> = (1..=15).map(|k| [r1 + 0.0001 * k as f64, phi, z]).collect();
        pts.insert(0, [r1, phi, z]);
        pts.push([r1 + 0.002, phi, z]);
        pts.push([r1 + 0.028, phi, z]);
        let (obs, class) = if i % 5 == 0 { pipeline(pts.clone()) } else { fit_only(pts.clone()) };
        let tag = if i % 5 == 0 { pipeline_tag(&pts) } else { fit_tag(&pts) };
        s.put(&case_points(tag, &pts), &obs, &format!("wire-row:{class}"), true);
    }
    // the same geometry reduced to its three template points (cheap: many azimuths); the subtended angle of the
    // huge circle rounds to exactly 0 for about one azimuth in a thousand
    for i in 0..(if thorough { 60000 } else { 6000 }) {
        let phi = uniform(&mut r, -PI, PI);
        let r1 = r.pick(&[0.12, 0.123, 0.11, 0.15, 0.158, 0.121, 0.112]) + if i % 2 == 0 { 0.0 } else { uniform(&mut r, 0.0, 0.01) };
        let z = if i % 4 == 0 { 0.25 } else { uniform(&mut r, -1.0, 1.0) };
        let (d2, d3) = (r.pick(&[0.002, 0.001, 0.005, 0.0001]), r.pick(&[0.028, 0.02, 0.029, 0.01]));
        let pts: Vec<P3> = vec![[r1, phi, z], [r1 + d2, phi, z], [r1 + d3, phi, z]];
        let (obs, class) = fit_only(pts.clone());
        s.put(&case_points(fit_tag(&pts), &pts), &obs, &format!("wire-row-3:{class}"), true);
    }
    for _ in 0..n_fit3 {
        // the NoInitialParameters decision: small clusters of every family, so that ties and exact collinearity are common
        let n = match r.below(4) {
            0 => 3,
            1 => r.range(3, 6) as usize,
            _ => r.range(3, 30) as usize,
        };
        let (mut pts, fam) = family(&mut r, n);
        if pts.len() < 3 {
            pts = dyadic_points(&mut r, 3);
        }
        if pts.len() < 3 {
            pts = random_points(&mut r, 3);
        }
        if r.chance(1, 4) {
            // duplicate some points / radii to force ties in minmax_by_key and min_by
            let k = pts.len();
            let (i, j) = (r.below(k as u64) as usize, r.below(k as u64) as usize);
            if r.chance(1, 2) {
                pts[i] = pts[j];
            } else {
                pts[i][0] = pts[j][0];
            }
        }
        let obs = fit_class(pts.clone());
        s.put(&case_points("fit3", &pts), &obs, &format!("fit3:{fam}:{obs}"), true);
    }
}
