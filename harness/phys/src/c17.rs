// C17: non-negative greedy deconvolution — case generation, implementation observations, and
// implementation-only relations.
//
// case:  c17 <kind> <offlo> <offhi> <lalo> <lahi> <response> <signal>
//        kind: w (wire response), p (pad response), x (other); floats are 16-hex-digit bit patterns
// obs:   outcome class ("ok", or "panic" if any of the calls below panicked), then
//        for every offset in offlo..=offhi, look_ahead in lalo..=lahi (offsets outer):
//          "<off>.<la>=" nn ;  then "ls=" ls_deconvolution over the same grid ;
//          kind p: "pad=" the real pad_deconvolution(signal) ;
//          kind w: "wire=" the real wire_range_deconvolution of a single-wire block holding the signal
//        nn  = "panic" | <residual> "/" vec ;  vec = <len> ":" i "=" bits "," ... (samples that are not +0.0)
//        NaN is printed as "nan" whatever its payload.
// rel17* lines: relations checked on the implementation alone ("holds" / "fails <detail>").
use crate::util::*;
use alpha_g_physics::verif;
use std::panic::AssertUnwindSafe;

const WIRE_GRID: (usize, usize, usize, usize) = (0, 1, 3, 12);
const PAD_GRID: (usize, usize, usize, usize) = (3, 5, 7, 12);

// ---------------------------------------------------------------------------------------------
// printing / parsing

fn fhex(v: &[f64]) -> String {
    if v.is_empty() {
        return "-".to_string();
    }
    let mut s = String::with_capacity(v.len() * 16);
    for x in v {
        s.push_str(&format!("{:016x}", x.to_bits()));
    }
    s
}
fn parse_floats(s: &str) -> Option<Vec<f64>> {
    if s == "-" {
        return Some(Vec::new());
    }
    if s.len() % 16 != 0 {
        return None;
    }
    (0..s.len() / 16)
        .map(|i| u64::from_str_radix(&s[16 * i..16 * i + 16], 16).ok().map(f64::from_bits))
        .collect()
}
fn fbits(x: f64) -> String {
    if x.is_nan() {
        "nan".to_string()
    } else {
        format!("{:016x}", x.to_bits())
    }
}
fn vec_obs(v: &[f64]) -> String {
    let mut s = format!("{}:", v.len());
    let mut first = true;
    for (i, x) in v.iter().enumerate() {
        if x.to_bits() != 0 {
            if !first {
                s.push(',');
            }
            first = false;
            s.push_str(&format!("{}={}", i, fbits(*x)));
        }
    }
    s
}
fn same_bits(a: &[f64], b: &[f64]) -> bool {
    a.len() == b.len() && a.iter().zip(b).all(|(x, y)| x.to_bits() == y.to_bits())
}

// ---------------------------------------------------------------------------------------------
// the real implementation, through the hooks

fn nn_impl(signal: &[f64], resp: &[f64], off: usize, la: usize) -> Option<(f64, Vec<f64>)> {
    catch(AssertUnwindSafe(|| verif::nn_greedy_deconvolution(signal, resp, off, la)))
}
fn ls_impl(signal: &[f64], resp: &[f64], g: (usize, usize, usize, usize)) -> Option<Vec<f64>> {
    catch(AssertUnwindSafe(|| verif::ls_deconvolution(signal, resp, g.0..=g.1, g.2..=g.3)))
}
fn pad_impl(signal: &[f64]) -> Option<Vec<f64>> {
    catch(AssertUnwindSafe(|| verif::pad_deconvolution(signal)))
}
fn empty_wires() -> Box<verif::WireSignals> {
    Box::new([(); 256].map(|_| None))
}
/// the wire path (wires.rs) on a block consisting of the single wire `wire`
fn single_wire_impl(signal: &[f64], wire: usize) -> Option<Vec<f64>> {
    let mut ws = empty_wires();
    ws[wire] = Some(signal.to_vec());
    catch(AssertUnwindSafe(|| {
        let ranges = verif::contiguous_ranges(&ws);
        assert!(ranges.len() == 1);
        let mut out = verif::wire_range_deconvolution(&ws, ranges[0]);
        assert!(out.len() == 1 && out[0].0 == wire);
        out.pop().unwrap().1
    }))
}

fn vec_or_panic(o: Option<Vec<f64>>) -> String {
    match o {
        None => "panic".to_string(),
        Some(v) => vec_obs(&v),
    }
}

fn observe(kind: &str, g: (usize, usize, usize, usize), resp: &[f64], signal: &[f64]) -> String {
    let mut s = String::new();
    for off in g.0..=g.1 {
        for la in g.2..=g.3 {
            let o = match nn_impl(signal, resp, off, la) {
                None => "panic".to_string(),
                Some((r, inp)) => format!("{}/{}", fbits(r), vec_obs(&inp)),
            };
            s.push_str(&format!("{off}.{la}={o} "));
        }
    }
    s.push_str(&format!("ls={}", vec_or_panic(ls_impl(signal, resp, g))));
    if kind == "p" {
        if same_bits(resp, &verif::pad_response()) {
            s.push_str(&format!(" pad={}", vec_or_panic(pad_impl(signal))));
        } else {
            s.push_str(" pad=response-of-case-line-is-not-the-pad-response");
        }
    }
    if kind == "w" {
        if same_bits(resp, &verif::wire_response()) {
            s.push_str(&format!(" wire={}", vec_or_panic(single_wire_impl(signal, 0))));
        } else {
            s.push_str(" wire=response-of-case-line-is-not-the-wire-response");
        }
    }
    // outcome class first: "panic" if any call panicked
    format!("{} {s}", if s.contains("panic") { "panic" } else { "ok" })
}

// ---------------------------------------------------------------------------------------------
// plain re-statement of the scheme (oracle of the rel17plain relation): one sample at a time,
// no skipping; argmin = first strict minimum

fn plain_nn(signal: &[f64], response: &[f64], off: usize, la: usize) -> (f64, Vec<f64>) {
    let rw = &response[off..off + la];
    assert!(rw.iter().all(|&x| x < 0.0));
    let n = signal.len();
    let mut res = signal.to_vec();
    let mut inp = vec![0.0; n];
    let mut i = 0;
    while i + off + la <= n {
        let mut any_nonneg = false;
        for j in 0..la {
            if res[i + off + j] >= 0.0 {
                any_nonneg = true;
            }
        }
        if !any_nonneg {
            let mut val = res[i + off] / rw[0];
            for j in 1..la {
                val = val.min(res[i + off + j] / rw[j]);
            }
            inp[i] = val;
            let m = (n - i).min(response.len());
            for j in 0..m {
                res[i + j] -= val * response[j];
            }
        }
        i += 1;
    }
    let mut sum = -0.0;
    for x in &res {
        sum += x * x;
    }
    (sum, inp)
}
fn plain_ls(signal: &[f64], response: &[f64], g: (usize, usize, usize, usize)) -> Vec<f64> {
    let mut best = f64::INFINITY;
    let mut best_in = Vec::new();
    for off in g.0..=g.1 {
        for la in g.2..=g.3 {
            let (r, inp) = plain_nn(signal, response, off, la);
            if r < best {
                best = r;
                best_in = inp;
            }
        }
    }
    best_in
}

// ---------------------------------------------------------------------------------------------
// relations on the implementation alone

fn resp_of(kind: &str) -> (Vec<f64>, (usize, usize, usize, usize)) {
    if kind == "p" {
        (verif::pad_response(), PAD_GRID)
    } else {
        (verif::wire_response(), WIRE_GRID)
    }
}
fn deconv_of(kind: &str, signal: &[f64]) -> Option<Vec<f64>> {
    if kind == "p" {
        pad_impl(signal)
    } else {
        single_wire_impl(signal, 0)
    }
}
fn good(v: &[f64], n: usize) -> Result<(), String> {
    if v.len() != n {
        return Err(format!("length {} for {} input samples", v.len(), n));
    }
    for (i, x) in v.iter().enumerate() {
        if !x.is_finite() {
            return Err(format!("sample {i} not finite"));
        }
        if !(*x >= 0.0) {
            return Err(format!("sample {i} negative: {x:e}"));
        }
    }
    Ok(())
}

/// outputs finite, >= 0, one per input sample: every grid point, and the production entry point
fn rel_prop(kind: &str, signal: &[f64]) -> Result<(), String> {
    let (resp, g) = resp_of(kind);
    let n = signal.len();
    for off in g.0..=g.1 {
        for la in g.2..=g.3 {
            let (r, inp) = nn_impl(signal, &resp, off, la).ok_or(format!("nn {off} {la} panics"))?;
            good(&inp, n).map_err(|e| format!("nn {off} {la}: {e}"))?;
            if !r.is_finite() || r < 0.0 {
                return Err(format!("nn {off} {la}: residual {r:e}"));
            }
        }
    }
    let ls = ls_impl(signal, &resp, g).ok_or("ls panics")?;
    good(&ls, n).map_err(|e| format!("ls: {e}"))?;
    let d = deconv_of(kind, signal).ok_or("entry point panics")?;
    good(&d, n).map_err(|e| format!("entry point: {e}"))?;
    if !same_bits(&d, &ls) {
        return Err("entry point differs from ls_deconvolution over the documented grid".into());
    }
    Ok(())
}

/// scaling every sample by 2^k scales every output by exactly 2^k (residual by 4^k), no decision changes
fn rel_scale(kind: &str, k: i32, signal: &[f64]) -> Result<(), String> {
    let (resp, g) = resp_of(kind);
    let c = 2f64.powi(k);
    let scaled: Vec<f64> = signal.iter().map(|x| x * c).collect();
    for off in g.0..=g.1 {
        for la in g.2..=g.3 {
            let (r0, i0) = nn_impl(signal, &resp, off, la).ok_or("panic")?;
            let (r1, i1) = nn_impl(&scaled, &resp, off, la).ok_or("panic")?;
            let want: Vec<f64> = i0.iter().map(|x| x * c).collect();
            if !same_bits(&want, &i1) {
                return Err(format!("nn {off} {la}: outputs not scaled exactly"));
            }
            if (r0 * c * c).to_bits() != r1.to_bits() {
                return Err(format!("nn {off} {la}: residual not scaled exactly"));
            }
        }
    }
    let d0 = deconv_of(kind, signal).ok_or("panic")?;
    let d1 = deconv_of(kind, &scaled).ok_or("panic")?;
    let want: Vec<f64> = d0.iter().map(|x| x * c).collect();
    if !same_bits(&want, &d1) {
        return Err("entry point: outputs not scaled exactly".into());
    }
    Ok(())
}

/// the production routine equals the plain one-sample-at-a-time scheme, bit for bit
fn rel_plain(kind: &str, signal: &[f64]) -> Result<(), String> {
    let (resp, g) = resp_of(kind);
    for off in g.0..=g.1 {
        for la in g.2..=g.3 {
            let (r0, i0) = nn_impl(signal, &resp, off, la).ok_or("panic")?;
            let (r1, i1) = plain_nn(signal, &resp, off, la);
            if !same_bits(&i0, &i1) || (r0.to_bits() != r1.to_bits() && !(r0.is_nan() && r1.is_nan())) {
                return Err(format!("nn {off} {la} differs from the plain sweep"));
            }
        }
    }
    let d = deconv_of(kind, signal).ok_or("panic")?;
    let p = plain_ls(signal, &resp, g);
    if !same_bits(&d, &p) {
        return Err("entry point differs from the plain scheme".into());
    }
    Ok(())
}

/// isolated response-shaped pulse of amplitude a at k (k + 18 <= n) on a single-wire block at `wire`
fn rel_pulse(wire: usize, n: usize, k: usize, a: f64) -> Result<(), String> {
    if k + 18 > n || wire >= 256 {
        return Err("bad case".into());
    }
    let resp = verif::wire_response();
    let mut signal = vec![0.0; n];
    for j in k..n.min(k + resp.len()) {
        signal[j] = a * resp[j - k];
    }
    let out = single_wire_impl(&signal, wire).ok_or("panic")?;
    if out.len() != n {
        return Err(format!("length {} for {} samples", out.len(), n));
    }
    for (i, x) in out.iter().enumerate() {
        if i == k {
            if !((x - a).abs() < 1e-6 * a) {
                return Err(format!("amplitude at {k}: {x:e} for {a:e}"));
            }
        } else if !(x.abs() <= 1e-6 * a) {
            return Err(format!("residue {x:e} at {i} (pulse {a:e} at {k})"));
        }
    }
    Ok(())
}

fn block_signals(first: usize, len: usize, seed: u64) -> Box<verif::WireSignals> {
    let mut r = Rng::new(seed ^ 0xB10C);
    let resp = verif::wire_response();
    let mut ws = empty_wires();
    let style = r.below(4);
    let base = r.range(0, 120) as usize;
    for j in 0..len {
        let w = (first + j) % 256;
        let n = match style {
            0 => base,                                  // uniform
            1 => r.range(0, 160) as usize,              // arbitrary, zero-length allowed
            2 => if j == len / 2 { 200 } else { base }, // one long channel
            _ => base + j % 3,
        };
        let mut s = vec![0.0; n];
        for _ in 0..r.below(3) {
            if n > 0 {
                let k = r.below(n as u64) as usize;
                let a = 1.0 + 2000.0 * unit(&mut r);
                for t in k..n.min(k + resp.len()) {
                    s[t] += a * resp[t - k];
                }
            }
        }
        for x in s.iter_mut() {
            *x = (*x + 20.0 * (unit(&mut r) - 0.5)).round();
        }
        ws[w] = Some(s);
    }
    ws
}

/// multi-wire block: one output channel per input channel (in ring order), output length = longest signal,
/// outputs finite and >= 0; exact 2^k scaling of the whole block
fn rel_block(first: usize, len: usize, seed: u64) -> Result<(), String> {
    if first >= 256 || len == 0 || len > 256 {
        return Err("bad case".into());
    }
    let ws = block_signals(first, len, seed);
    let longest = (0..len).map(|j| ws[(first + j) % 256].as_ref().unwrap().len()).max().unwrap();
    let out = catch(AssertUnwindSafe(|| {
        let ranges = verif::contiguous_ranges(&ws);
        (ranges.clone(), ranges.iter().map(|r| verif::wire_range_deconvolution(&ws, *r)).collect::<Vec<_>>())
    }))
    .ok_or("panic")?;
    let (ranges, outs) = out;
    if ranges.len() != 1 {
        return Err(format!("{} ranges for one block", ranges.len()));
    }
    let want_range = if len == 256 { (0, 256) } else { (first, (first + len - 1) % 256 + 1) };
    if ranges[0] != want_range {
        return Err(format!("range {:?}, expected {:?}", ranges[0], want_range));
    }
    let o = &outs[0];
    if o.len() != len {
        return Err(format!("{} output channels for {} input channels", o.len(), len));
    }
    let start = if len == 256 { 0 } else { first };
    for (j, (w, v)) in o.iter().enumerate() {
        if *w != (start + j) % 256 {
            return Err(format!("channel {j} is wire {w}"));
        }
        good(v, longest).map_err(|e| format!("wire {w}: {e}"))?;
    }
    // scaling every sample of the block by 2^k scales every output by exactly 2^k (Cholesky solve included)
    let c = 2f64.powi((seed % 41) as i32 - 20);
    let mut scaled = empty_wires();
    for j in 0..len {
        let w = (first + j) % 256;
        scaled[w] = Some(ws[w].as_ref().unwrap().iter().map(|x| x * c).collect());
    }
    let o2 = catch(AssertUnwindSafe(|| verif::wire_range_deconvolution(&scaled, ranges[0]))).ok_or("panic (scaled)")?;
    for ((w, v), (w2, v2)) in o.iter().zip(&o2) {
        let want: Vec<f64> = v.iter().map(|x| x * c).collect();
        if w != w2 || !same_bits(&want, v2) {
            return Err(format!("wire {w}: outputs of the block scaled by {c:e} are not scaled exactly"));
        }
    }
    Ok(())
}

/// table facts used by C17_isolated_pulse_exact(_Q) and by the assert of the routine: every response
/// window of the production grids is negative (wire: samples 0..13; pad: samples 3..17)
fn rel_table() -> Result<(), String> {
    let w = verif::wire_response();
    let p = verif::pad_response();
    if w.len() < 13 || !w[..13].iter().all(|&x| x < 0.0) {
        return Err("wire response: first 13 samples not all negative".into());
    }
    if p.len() < 17 || !p[3..17].iter().all(|&x| x < 0.0) {
        return Err("pad response: samples 3..17 not all negative".into());
    }
    if !w.iter().chain(p.iter()).all(|x| x.is_finite()) {
        return Err("response not finite".into());
    }
    Ok(())
}

fn verdict(r: Result<(), String>) -> String {
    match r {
        Ok(()) => "holds".to_string(),
        Err(e) => format!("fails {e}"),
    }
}

// ---------------------------------------------------------------------------------------------
// generators

fn unit(r: &mut Rng) -> f64 {
    (r.next() >> 11) as f64 / (1u64 << 53) as f64
}
fn log_uniform(r: &mut Rng, lo: f64, hi: f64) -> f64 {
    (lo.ln() + unit(r) * (hi.ln() - lo.ln())).exp()
}
fn length(r: &mut Rng) -> usize {
    match r.below(10) {
        0 => r.range(1, 20) as usize,
        1..=4 => r.range(1, 80) as usize,
        5..=7 => r.range(80, 250) as usize,
        8 => r.range(250, 700) as usize,
        _ => r.pick(&[1usize, 2, 3, 12, 13, 14, 16, 17, 18, 19, 511, 699, 700]),
    }
}
fn amplitude(r: &mut Rng) -> f64 {
    match r.below(6) {
        0 => 1.0,
        1 => 1e4,
        2 => r.range(1, 10000) as f64,
        _ => log_uniform(r, 1.0, 1e4),
    }
}

/// sums of 0..=8 response-shaped pulses + noise, integer-rounded or not
fn pulses(r: &mut Rng, resp: &[f64], n: usize) -> (Vec<f64>, String) {
    let mut s = vec![0.0; n];
    let np = r.below(9) as usize;
    for _ in 0..np {
        let k = if r.chance(1, 3) { n - 1 - (r.below(20) as usize).min(n - 1) } else { r.below(n as u64) as usize };
        let a = amplitude(r);
        for t in k..n.min(k + resp.len()) {
            s[t] += a * resp[t - k];
        }
    }
    let mag = r.pick(&[0.0, 0.0, 0.01, 1.0, 10.0, 100.0, 1000.0]);
    if mag > 0.0 {
        for x in s.iter_mut() {
            *x += mag * (2.0 * unit(r) - 1.0);
        }
    }
    let rounded = r.chance(1, 2);
    if rounded {
        for x in s.iter_mut() {
            *x = x.round();
        }
    }
    (s, format!("pulses{}{}{}", np.min(3), if mag > 0.0 { "-noise" } else { "" }, if rounded { "-int" } else { "" }))
}

fn special(r: &mut Rng, n: usize, which: u64) -> (Vec<f64>, &'static str) {
    let mut v = vec![0.0; n];
    let label = match which {
        0 => {
            for x in v.iter_mut() {
                *x = 1.0 + 1000.0 * unit(r);
            }
            "all-positive"
        }
        1 => {
            for x in v.iter_mut() {
                *x = -(1.0 + 1000.0 * unit(r));
            }
            "all-negative"
        }
        2 => "zeros",
        3 => {
            for x in v.iter_mut() {
                *x = if r.chance(1, 2) { -0.0 } else { 0.0 };
            }
            "signed-zeros"
        }
        4 => {
            for x in v.iter_mut() {
                *x = -r.pick(&[5e-324, 1e-310, 2.2250738585072014e-308, 1e-300, 1e-200]) * (1.0 + unit(r));
                if r.chance(1, 5) {
                    *x = -*x;
                }
            }
            "tiny"
        }
        5 => {
            for x in v.iter_mut() {
                *x = -r.pick(&[1e150, 1e154, 1e160, 1e300, f64::MAX / 4.0]) * (1.0 + unit(r));
                if r.chance(1, 5) {
                    *x = -*x;
                }
            }
            "huge"
        }
        6 => {
            for x in v.iter_mut() {
                *x = -1000.0 * unit(r);
                if r.chance(1, 8) {
                    *x = r.pick(&[f64::NAN, -f64::NAN, f64::INFINITY, f64::NEG_INFINITY, f64::MAX, f64::MIN]);
                }
            }
            "nan-inf"
        }
        _ => {
            for x in v.iter_mut() {
                *x = f64::from_bits(r.next());
            }
            "random-bits"
        }
    };
    (v, label)
}

fn emit(s: &mut Sink, kind: &str, g: (usize, usize, usize, usize), resp: &[f64], signal: &[f64], label: &str) {
    let o = observe(kind, g, resp, signal);
    // non-trivial: the sweep loop is entered for at least one grid point and nothing panics
    let nontrivial = signal.len() >= g.0 + g.2 && !o.contains("panic");
    s.put(
        &format!("c17 {kind} {} {} {} {} {} {}", g.0, g.1, g.2, g.3, fhex(resp), fhex(signal)),
        &o,
        &format!("{kind}-{label}"),
        nontrivial,
    );
}
fn emit_rel(s: &mut Sink, line: String, label: &str) {
    let o = observe_line(&line).unwrap();
    s.put(&line, &o, label, true);
}

pub fn run(tier: &str, seed: u64, s: &mut Sink) {
    let mut r = Rng::new(seed ^ 0xC17);
    let thorough = tier == "thorough";
    let wire = verif::wire_response();
    let pad = verif::pad_response();
    let mul = if thorough { 10 } else { 1 };

    // --- differential cases: structured waveforms on the two production responses
    for _ in 0..700 * mul {
        for (kind, resp, own, other) in [("w", &wire, WIRE_GRID, PAD_GRID), ("p", &pad, PAD_GRID, WIRE_GRID)] {
            let n = length(&mut r);
            let (sig, label) = pulses(&mut r, resp, n);
            // the other grid too (pad response with offset 0 trips the assert: window not negative)
            let g = if r.chance(1, 6) { other } else { own };
            emit(s, kind, g, resp, &sig, &label);
        }
    }
    // --- boundary lengths around offset + look_ahead for every grid point, pulse at the very end
    for (kind, resp, g) in [("w", &wire, WIRE_GRID), ("p", &pad, PAD_GRID)] {
        for n in 0..=20usize {
            let mut sig = vec![0.0; n];
            for (t, x) in sig.iter_mut().enumerate() {
                *x = 100.0 * resp[t + g.0];
            }
            emit(s, kind, g, resp, &sig, "short");
            let (sig, _) = if n > 0 { pulses(&mut r, resp, n) } else { (vec![], String::new()) };
            emit(s, kind, g, resp, &sig, "short");
        }
    }
    // --- special values
    for _ in 0..12 * mul {
        for which in 0..8 {
            for (kind, resp, g) in [("w", &wire, WIRE_GRID), ("p", &pad, PAD_GRID)] {
                let n = length(&mut r).min(if which >= 4 { 120 } else { 700 });
                let (mut sig, label) = special(&mut r, n, which);
                if which >= 4 && r.chance(1, 2) {
                    // a special sample inside an ordinary waveform
                    let (mut base, _) = pulses(&mut r, resp, n);
                    for _ in 0..=r.below(3) {
                        let i = r.below(n as u64) as usize;
                        base[i] = sig[i];
                    }
                    sig = base;
                }
                emit(s, kind, g, resp, &sig, label);
            }
        }
    }
    // --- other responses and grids: window not negative (assert), slices out of range, look_ahead 0,
    //     empty grids, response shorter than the signal / than the window
    for _ in 0..300 * mul {
        let rl = r.boundary(30) as usize;
        let mut resp: Vec<f64> = (0..rl).map(|_| -(0.01 + 50.0 * unit(&mut r))).collect();
        if rl > 0 && r.chance(1, 4) {
            let i = r.below(rl as u64) as usize;
            resp[i] = r.pick(&[0.0, -0.0, 1.0, f64::NAN, f64::NEG_INFINITY, -1e-320]);
        }
        let offlo = r.boundary(6) as usize;
        let offhi = (offlo + r.below(3) as usize).saturating_sub(r.chance(1, 10) as usize);
        let lalo = r.boundary(8) as usize;
        let lahi = (lalo + r.below(4) as usize).saturating_sub(r.chance(1, 10) as usize);
        let n = r.boundary(60) as usize;
        let (sig, _) = if n > 0 && !resp.is_empty() { pulses(&mut r, &resp, n) } else { (vec![-1.0; n], String::new()) };
        emit(s, "x", (offlo, offhi, lalo, lahi), &resp, &sig, "other-response");
    }

    // --- relations on the implementation alone
    emit_rel(s, "rel17table".to_string(), "rel-table-facts");
    for _ in 0..150 * mul {
        for kind in ["w", "p"] {
            let (resp, _) = resp_of(kind);
            let n = length(&mut r);
            let (sig, _) = pulses(&mut r, &resp, n);
            emit_rel(s, format!("rel17prop {kind} {}", fhex(&sig)), "rel-finite-nonneg-length");
            emit_rel(s, format!("rel17plain {kind} {}", fhex(&sig)), "rel-equals-plain");
            let k = r.range(0, 40) as i32 - 20;
            emit_rel(s, format!("rel17scale {kind} {k} {}", fhex(&sig)), "rel-scale");
        }
    }
    for k in -20..=20 {
        for kind in ["w", "p"] {
            let (resp, _) = resp_of(kind);
            let n = length(&mut r);
            let (sig, _) = pulses(&mut r, &resp, n);
            emit_rel(s, format!("rel17scale {kind} {k} {}", fhex(&sig)), "rel-scale");
        }
    }
    // isolated pulse at several ring positions
    let ring: Vec<usize> = if thorough { (0..256).collect() } else { vec![0, 1, 15, 16, 127, 128, 254, 255] };
    for &w in &ring {
        for _ in 0..(if thorough { 6 } else { 12 }) {
            let n = r.range(18, 700) as usize;
            let k = match r.below(4) {
                0 => 0,
                1 => n - 18,
                _ => r.below((n - 17) as u64) as usize,
            };
            let a = amplitude(&mut r);
            emit_rel(s, format!("rel17pulse {w} {n} {k} {:016x}", a.to_bits()), "rel-isolated-pulse");
        }
    }
    // multi-wire blocks of every length at seam positions
    let lens: Vec<usize> = if thorough {
        (1..=256).collect()
    } else {
        let mut v = vec![1, 2, 3, 4, 5, 6, 7, 8, 9, 10, 16, 17, 100, 255, 256];
        for _ in 0..6 {
            v.push(r.range(1, 256) as usize);
        }
        v
    };
    for &len in &lens {
        let mut firsts = vec![0usize, 256 - len.min(255), (256 - len / 2) % 256, 255];
        if thorough {
            firsts.push(r.below(256) as usize);
            firsts.push(r.below(256) as usize);
        }
        firsts.dedup();
        for first in firsts {
            let sd = r.next() >> 16;
            emit_rel(s, format!("rel17block {first} {len} {sd}"), "rel-block-shape");
        }
    }
}

/// implementation observation for a case line of this module (None: not one of mine)
pub fn observe_line(line: &str) -> Option<String> {
    let t: Vec<&str> = line.split(' ').collect();
    let bad = || Some("bad-case-line".to_string());
    match t[0] {
        "c17" => {
            if t.len() != 8 {
                return bad();
            }
            let p = |s: &str| s.parse::<usize>().ok();
            let (Some(a), Some(b), Some(c), Some(d)) = (p(t[2]), p(t[3]), p(t[4]), p(t[5])) else { return bad() };
            let (Some(resp), Some(sig)) = (parse_floats(t[6]), parse_floats(t[7])) else { return bad() };
            Some(observe(t[1], (a, b, c, d), &resp, &sig))
        }
        "rel17prop" | "rel17plain" if t.len() == 3 => {
            let Some(sig) = parse_floats(t[2]) else { return bad() };
            Some(verdict(if t[0] == "rel17prop" { rel_prop(t[1], &sig) } else { rel_plain(t[1], &sig) }))
        }
        "rel17scale" if t.len() == 4 => {
            let (Ok(k), Some(sig)) = (t[2].parse::<i32>(), parse_floats(t[3])) else { return bad() };
            Some(verdict(rel_scale(t[1], k, &sig)))
        }
        "rel17pulse" if t.len() == 5 => {
            let p = |s: &str| s.parse::<usize>().ok();
            let (Some(w), Some(n), Some(k), Some(a)) = (p(t[1]), p(t[2]), p(t[3]), parse_floats(t[4])) else { return bad() };
            Some(verdict(rel_pulse(w, n, k, a[0])))
        }
        "rel17table" if t.len() == 1 => Some(verdict(rel_table())),
        "rel17block" if t.len() == 4 => {
            let (Ok(f), Ok(l), Ok(sd)) = (t[1].parse::<usize>(), t[2].parse::<usize>(), t[3].parse::<u64>()) else {
                return bad();
            };
            Some(verdict(rel_block(f, l, sd)))
        }
        _ => None,
    }
}
