// C17: non-negative greedy deconvolution — case generation, implementation observations, and
// implementation-only relations.
//
// case:  c17 <kind> <offlo> <offhi> <lalo> <lahi> <response> <signal>
//        kind: w (wire response), p (pad response), x (other); floats are 16-hex-digit bit patterns
// obs:   outcome class ("ok", or "panic" if any of the calls below panicked), then
//        for every offset in offlo..=offhi, look_ahead in lalo..=lahi (offsets outer):
//          "<off>.<la>=" nn ;  then "ls=" ls_deconvolution over the same grid ;
//          kind p: "pad=" the real pad_deconvolution(signal) ;
//          kind w: "wire=" the real wire_range_deconvolution of a single-wire block holding the signal
//        nn  = "panic" | <residual> "/" vec ;  vec = <len> ":" i "=" bits "," ... (samples that are not +0.0)
//        NaN is printed as "nan" whatever its payload.
// rel17* lines: relations checked on the implementation alone ("holds" / "fails <detail>"), except
//   rel17scale <kind> <k> <want> <exact> <response> <signal>
//        the tie of the binary64 scale theorems (C17_nn_greedy_scale_f64, C17_ls_deconv_scale_f64) to the runs.
//        <exact> = 1 iff the REAL routines scale bit for bit under multiplication of every sample by 2^k (every
//        sweep of the production grid: amplitudes by 2^k, residual by 4^k; and the entry point), computed when the
//        line is generated.  The MODEL side evaluates the theorems' executable hypothesis (nn_safe / ls_safe) on
//        the line's waveform, response, grid and k, and answers "violates-theorem" iff it is true and <exact> = 0;
//        <want> = s (generator class for which the hypothesis must be true: in-domain waveform, |k| <= 20),
//        u (must be false: |k| > 500), a (either).  The implementation side re-measures <exact> and answers "ok" iff
//        the field is what the implementation does now.
//   rel17event <shape> <seed> <k>     event level: avalanches() of a synthetic event and of the event with EVERY
//        wire and pad sample multiplied by 2^k: same count, same (t, phi, z) bit for bit, both amplitudes * 2^k.
//   rel17eventscan <shape> <seed>     measurement aid (never generated): the interval of k around 0 on which the
//        event-level relation holds.
use crate::util::*;
use alpha_g_physics::{verif, Avalanche, MainEvent};
use std::panic::AssertUnwindSafe;
use uom::si::angle::radian;
use uom::si::length::meter;
use uom::si::time::second;

const WIRE_GRID: (usize, usize, usize, usize) = (0, 1, 3, 12);
const PAD_GRID: (usize, usize, usize, usize) = (3, 5, 7, 12);

// ---------------------------------------------------------------------------------------------
// printing / parsing

fn fhex(v: &[f64]) -> String {
    if v.is_empty() {
        return "-".to_string();
    }
    let mut s = String::with_capacity(v.len() * 16);
    for x in v {
        s.push_str(&format!("{:016x}", x.to_bits()));
    }
    s
}
fn parse_floats(s: &str) -> Option<Vec<f64>> {
    if s == "-" {
        return Some(Vec::new());
    }
    if s.len() % 16 != 0 {
        return None;
    }
    (0..s.len() / 16)
        .map(|i| u64::from_str_radix(&s[16 * i..16 * i + 16], 16).ok().map(f64::from_bits))
        .collect()
}
fn fbits(x: f64) -> String {
    if x.is_nan() {
        "nan".to_string()
    } else {
        format!("{:016x}", x.to_bits())
    }
}
fn vec_obs(v: &[f64]) -> String {
    let mut s = format!("{}:", v.len());
    let mut first = true;
    for (i, x) in v.iter().enumerate() {
        if x.to_bits() != 0 {
            if !first {
                s.push(',');
            }
            first = false;
            s.push_str(&format!("{}={}", i, fbits(*x)));
        }
    }
    s
}
fn same_bits(a: &[f64], b: &[f64]) -> bool {
    a.len() == b.len() && a.iter().zip(b).all(|(x, y)| x.to_bits() == y.to_bits())
}

// ---------------------------------------------------------------------------------------------
// the real implementation, through the hooks

fn nn_impl(signal: &[f64], resp: &[f64], off: usize, la: usize) -> Option<(f64, Vec<f64>)> {
    catch(AssertUnwindSafe(|| verif::nn_greedy_deconvolution(signal, resp, off, la)))
}
fn ls_impl(signal: &[f64], resp: &[f64], g: (usize, usize, usize, usize)) -> Option<Vec<f64>> {
    catch(AssertUnwindSafe(|| verif::ls_deconvolution(signal, resp, g.0..=g.1, g.2..=g.3)))
}
fn pad_impl(signal: &[f64]) -> Option<Vec<f64>> {
    catch(AssertUnwindSafe(|| verif::pad_deconvolution(signal)))
}
fn empty_wires() -> Box<verif::WireSignals> {
    Box::new([(); 256].map(|_| None))
}
/// the wire path (wires.rs) on a block consisting of the single wire `wire`
fn single_wire_impl(signal: &[f64], wire: usize) -> Option<Vec<f64>> {
    let mut ws = empty_wires();
    ws[wire] = Some(signal.to_vec());
    catch(AssertUnwindSafe(|| {
        let ranges = verif::contiguous_ranges(&ws);
        assert!(ranges.len() == 1);
        let mut out = verif::wire_range_deconvolution(&ws, ranges[0]);
        assert!(out.len() == 1 && out[0].0 == wire);
        out.pop().unwrap().1
    }))
}

fn vec_or_panic(o: Option<Vec<f64>>) -> String {
    match o {
        None => "panic".to_string(),
        Some(v) => vec_obs(&v),
    }
}

fn observe(kind: &str, g: (usize, usize, usize, usize), resp: &[f64], signal: &[f64]) -> String {
    let mut s = String::new();
    for off in g.0..=g.1 {
        for la in g.2..=g.3 {
            let o = match nn_impl(signal, resp, off, la) {
                None => "panic".to_string(),
                Some((r, inp)) => format!("{}/{}", fbits(r), vec_obs(&inp)),
            };
            s.push_str(&format!("{off}.{la}={o} "));
        }
    }
    s.push_str(&format!("ls={}", vec_or_panic(ls_impl(signal, resp, g))));
    if kind == "p" {
        if same_bits(resp, &verif::pad_response()) {
            s.push_str(&format!(" pad={}", vec_or_panic(pad_impl(signal))));
        } else {
            s.push_str(" pad=response-of-case-line-is-not-the-pad-response");
        }
    }
    if kind == "w" {
        if same_bits(resp, &verif::wire_response()) {
            s.push_str(&format!(" wire={}", vec_or_panic(single_wire_impl(signal, 0))));
        } else {
            s.push_str(" wire=response-of-case-line-is-not-the-wire-response");
        }
    }
    // outcome class first: "panic" if any call panicked
    format!("{} {s}", if s.contains("panic") { "panic" } else { "ok" })
}

// ---------------------------------------------------------------------------------------------
// plain re-statement of the scheme (oracle of the rel17plain relation): one sample at a time,
// no skipping; argmin = first strict minimum

fn plain_nn(signal: &[f64], response: &[f64], off: usize, la: usize) -> (f64, Vec<f64>) {
    let rw = &response[off..off + la];
    assert!(rw.iter().all(|&x| x < 0.0));
    let n = signal.len();
    let mut res = signal.to_vec();
    let mut inp = vec![0.0; n];
    let mut i = 0;
    while i + off + la <= n {
        let mut any_nonneg = false;
        for j in 0..la {
            if res[i + off + j] >= 0.0 {
                any_nonneg = true;
            }
        }
        if !any_nonneg {
            let mut val = res[i + off] / rw[0];
            for j in 1..la {
                val = val.min(res[i + off + j] / rw[j]);
            }
            inp[i] = val;
            let m = (n - i).min(response.len());
            for j in 0..m {
                res[i + j] -= val * response[j];
            }
        }
        i += 1;
    }
    let mut sum = -0.0;
    for x in &res {
        sum += x * x;
    }
    (sum, inp)
}
fn plain_ls(signal: &[f64], response: &[f64], g: (usize, usize, usize, usize)) -> Vec<f64> {
    let mut best = f64::INFINITY;
    let mut best_in = Vec::new();
    for off in g.0..=g.1 {
        for la in g.2..=g.3 {
            let (r, inp) = plain_nn(signal, response, off, la);
            if r < best {
                best = r;
                best_in = inp;
            }
        }
    }
    best_in
}

// ---------------------------------------------------------------------------------------------
// relations on the implementation alone

fn resp_of(kind: &str) -> (Vec<f64>, (usize, usize, usize, usize)) {
    if kind == "p" {
        (verif::pad_response(), PAD_GRID)
    } else {
        (verif::wire_response(), WIRE_GRID)
    }
}
fn deconv_of(kind: &str, signal: &[f64]) -> Option<Vec<f64>> {
    if kind == "p" {
        pad_impl(signal)
    } else {
        single_wire_impl(signal, 0)
    }
}
fn good(v: &[f64], n: usize) -> Result<(), String> {
    if v.len() != n {
        return Err(format!("length {} for {} input samples", v.len(), n));
    }
    for (i, x) in v.iter().enumerate() {
        if !x.is_finite() {
            return Err(format!("sample {i} not finite"));
        }
        if !(*x >= 0.0) {
            return Err(format!("sample {i} negative: {x:e}"));
        }
    }
    Ok(())
}

/// outputs finite, >= 0, one per input sample: every grid point, and the production entry point
fn rel_prop(kind: &str, signal: &[f64]) -> Result<(), String> {
    let (resp, g) = resp_of(kind);
    let n = signal.len();
    for off in g.0..=g.1 {
        for la in g.2..=g.3 {
            let (r, inp) = nn_impl(signal, &resp, off, la).ok_or(format!("nn {off} {la} panics"))?;
            good(&inp, n).map_err(|e| format!("nn {off} {la}: {e}"))?;
            if !r.is_finite() || r < 0.0 {
                return Err(format!("nn {off} {la}: residual {r:e}"));
            }
        }
    }
    let ls = ls_impl(signal, &resp, g).ok_or("ls panics")?;
    good(&ls, n).map_err(|e| format!("ls: {e}"))?;
    let d = deconv_of(kind, signal).ok_or("entry point panics")?;
    good(&d, n).map_err(|e| format!("entry point: {e}"))?;
    if !same_bits(&d, &ls) {
        return Err("entry point differs from ls_deconvolution over the documented grid".into());
    }
    Ok(())
}

/// 2^k as a binary64 number (exact for -1022 <= k <= 1023; beyond: 0 or +inf, as powi gives)
fn pow2(k: i32) -> f64 {
    if (-1022..=1023).contains(&k) {
        f64::from_bits(((k + 1023) as u64) << 52)
    } else {
        2f64.powi(k)
    }
}

/// scaling every sample by 2^k scales every output by exactly 2^k (residual by 4^k), no decision changes.
/// Err = not exact (with the first place where it is not)
fn rel_scale(kind: &str, k: i32, signal: &[f64]) -> Result<(), String> {
    let (resp, g) = resp_of(kind);
    let c = pow2(k);
    let scaled: Vec<f64> = signal.iter().map(|x| x * c).collect();
    for off in g.0..=g.1 {
        for la in g.2..=g.3 {
            let (r0, i0) = nn_impl(signal, &resp, off, la).ok_or("panic")?;
            let (r1, i1) = nn_impl(&scaled, &resp, off, la).ok_or("panic")?;
            let want: Vec<f64> = i0.iter().map(|x| x * c).collect();
            if !same_bits(&want, &i1) {
                return Err(format!("nn {off} {la}: outputs not scaled exactly"));
            }
            if (r0 * c * c).to_bits() != r1.to_bits() {
                return Err(format!("nn {off} {la}: residual not scaled exactly"));
            }
        }
    }
    let d0 = deconv_of(kind, signal).ok_or("panic")?;
    let d1 = deconv_of(kind, &scaled).ok_or("panic")?;
    let want: Vec<f64> = d0.iter().map(|x| x * c).collect();
    if !same_bits(&want, &d1) {
        return Err("entry point: outputs not scaled exactly".into());
    }
    Ok(())
}
fn scale_line(kind: &str, k: i32, want: &str, signal: &[f64]) -> (String, bool) {
    let exact = rel_scale(kind, k, signal).is_ok();
    let (resp, _) = resp_of(kind);
    (format!("rel17scale {kind} {k} {want} {} {} {}", exact as u8, fhex(&resp), fhex(signal)), exact)
}
fn observe_scale(kind: &str, k: i32, exact: &str, resp: &[f64], signal: &[f64]) -> String {
    if (kind != "w" && kind != "p") || (exact != "0" && exact != "1") {
        return "bad-case-line".into();
    }
    if !same_bits(resp, &resp_of(kind).0) {
        return "response-of-case-line-is-not-the-production-response".into();
    }
    match rel_scale(kind, k, signal) {
        Ok(()) if exact == "1" => "ok".into(),
        Err(_) if exact == "0" => "ok".into(),
        Ok(()) => "exact-field-stale: the implementation scales exactly".into(),
        Err(e) => format!("exact-field-stale: {e}"),
    }
}

/// the production routine equals the plain one-sample-at-a-time scheme, bit for bit
fn rel_plain(kind: &str, signal: &[f64]) -> Result<(), String> {
    let (resp, g) = resp_of(kind);
    for off in g.0..=g.1 {
        for la in g.2..=g.3 {
            let (r0, i0) = nn_impl(signal, &resp, off, la).ok_or("panic")?;
            let (r1, i1) = plain_nn(signal, &resp, off, la);
            if !same_bits(&i0, &i1) || (r0.to_bits() != r1.to_bits() && !(r0.is_nan() && r1.is_nan())) {
                return Err(format!("nn {off} {la} differs from the plain sweep"));
            }
        }
    }
    let d = deconv_of(kind, signal).ok_or("panic")?;
    let p = plain_ls(signal, &resp, g);
    if !same_bits(&d, &p) {
        return Err("entry point differs from the plain scheme".into());
    }
    Ok(())
}

/// isolated response-shaped pulse of amplitude a at k (k + 18 <= n) on a SINGLE-WIRE block at ring position
/// `wire` (what the property claims "wherever the wire sits on the ring"; a wire inside a multi-wire block goes
/// through the cross-talk solve and is covered by rel17block's channel-identity part).
/// The property's threshold is 1e-6 relative; the level measured on this implementation is 2e-16, so anything
/// above 1e-12 is already reported (a degradation by four orders of magnitude that the 1e-6 figure would hide).
const PULSE_PROPERTY_TOL: f64 = 1e-6;
const PULSE_MEASURED_TOL: f64 = 1e-12;
fn rel_pulse(wire: usize, n: usize, k: usize, a: f64) -> Result<(), String> {
    if k + 18 > n || wire >= 256 || !(a > 0.0) {
        return Err("bad case".into());
    }
    let resp = verif::wire_response();
    let mut signal = vec![0.0; n];
    for j in k..n.min(k + resp.len()) {
        signal[j] = a * resp[j - k];
    }
    let out = single_wire_impl(&signal, wire).ok_or("panic")?;
    if out.len() != n {
        return Err(format!("length {} for {} samples", out.len(), n));
    }
    // worst relative deviation: |x - a| / a at k, |x| / a elsewhere
    let mut worst = 0.0f64;
    let mut at = 0;
    for (i, x) in out.iter().enumerate() {
        let e = if i == k { (x - a).abs() / a } else { x.abs() / a };
        if !(e <= worst) {
            worst = e;
            at = i;
        }
    }
    if !(worst < PULSE_PROPERTY_TOL) {
        return Err(format!(
            "VIOLATES the property's 1e-6: relative deviation {worst:e} at sample {at} (pulse {a:e} at {k}, wire {wire})"
        ));
    }
    if !(worst <= PULSE_MEASURED_TOL) {
        return Err(format!(
            "relative deviation {worst:e} at sample {at} exceeds the measured level 1e-12 (property threshold 1e-6 not reached; pulse {a:e} at {k}, wire {wire})"
        ));
    }
    Ok(())
}

/// noisy integer-rounded signals with 0..=2 pulses per wire on the block (first, len), written into `ws`
fn block_signals(ws: &mut verif::WireSignals, first: usize, len: usize, seed: u64) {
    let mut r = Rng::new(seed ^ 0xB10C);
    let resp = verif::wire_response();
    let style = r.below(4);
    let base = r.range(0, 120) as usize;
    for j in 0..len {
        let w = (first + j) % 256;
        let n = match style {
            0 => base,                                  // uniform
            1 => r.range(0, 160) as usize,              // arbitrary, zero-length allowed
            2 => if j == len / 2 { 200 } else { base }, // one long channel
            _ => base + j % 3,
        };
        let mut s = vec![0.0; n];
        for _ in 0..r.below(3) {
            if n > 0 {
                let k = r.below(n as u64) as usize;
                let a = 1.0 + 2000.0 * unit(&mut r);
                for t in k..n.min(k + resp.len()) {
                    s[t] += a * resp[t - k];
                }
            }
        }
        for x in s.iter_mut() {
            *x = (*x + 20.0 * (unit(&mut r) - 0.5)).round();
        }
        ws[w] = Some(s);
    }
}

// induction factors of wires.rs (NEIGHBOR_FACTORS): used only to SYNTHESISE the signals of the channel-identity
// part of rel17block and of rel17event (Y = R * X * A); if they drift from the source the identity part fails
const NEIGHBOR: [f64; 5] = [1.0, -0.1275, -0.0365, -0.012, -0.0042];

/// distinguishable avalanches for the channel-identity part: for the block (first, len) choose on about half of
/// the wires (always the two ends) ONE avalanche (time k_j, amplitude a_j), all different, and write the signals
/// Y = R * X * A that such avalanches induce on the block (A = the banded matrix of wires.rs in block order)
fn identity_signals(ws: &mut verif::WireSignals, start: usize, len: usize, n: usize, seed: u64) -> Vec<Option<(usize, f64)>> {
    let mut r = Rng::new(seed ^ 0x1DE7);
    let resp = verif::wire_response();
    let x: Vec<Option<(usize, f64)>> = (0..len)
        .map(|j| {
            let (k, a) = (r.below((n - 17) as u64) as usize, 10.0 + 990.0 * unit(&mut r));
            if j == 0 || j + 1 == len || r.chance(1, 2) {
                Some((k, a))
            } else {
                None
            }
        })
        .collect();
    for j2 in 0..len {
        let mut s = vec![0.0; n];
        for j in j2.saturating_sub(4)..len.min(j2 + 5) {
            if let Some((k, a)) = x[j] {
                let f = a * NEIGHBOR[j.abs_diff(j2)];
                for t in k..n.min(k + resp.len()) {
                    s[t] += f * resp[t - k];
                }
            }
        }
        ws[(start + j2) % 256] = Some(s);
    }
    x
}

fn parse_blocks(s: &str) -> Option<Vec<(usize, usize)>> {
    let mut v = vec![];
    for e in s.split(',') {
        let (a, b) = e.split_once('+')?;
        v.push((a.parse().ok()?, b.parse().ok()?));
    }
    Some(v)
}
fn blocks_str(b: &[(usize, usize)]) -> String {
    b.iter().map(|(f, l)| format!("{f}+{l}")).collect::<Vec<_>>().join(",")
}
/// the blocks are disjoint and no two of them touch (cyclically): they are exactly the maximal runs
fn blocks_valid(b: &[(usize, usize)]) -> bool {
    let mut present = [false; 256];
    for &(first, len) in b {
        if first >= 256 || len == 0 || len > 256 {
            return false;
        }
        for j in 0..len {
            if std::mem::replace(&mut present[(first + j) % 256], true) {
                return false;
            }
        }
    }
    b.iter().all(|&(first, len)| len == 256 || (!present[(first + 255) % 256] && !present[(first + len) % 256]))
}
/// what contiguous_ranges must say for the block, and the wire of its column 0
fn want_range(first: usize, len: usize) -> ((usize, usize), usize) {
    if len == 256 {
        ((0, 256), 0)
    } else {
        ((first, (first + len - 1) % 256 + 1), first)
    }
}
type BlockOut = Vec<(usize, Vec<f64>)>;
fn ranges_and_outputs(ws: &verif::WireSignals, blocks: &[(usize, usize)]) -> Result<Vec<BlockOut>, String> {
    let (ranges, outs) = catch(AssertUnwindSafe(|| {
        let ranges = verif::contiguous_ranges(ws);
        (ranges.clone(), ranges.iter().map(|r| verif::wire_range_deconvolution(ws, *r)).collect::<Vec<_>>())
    }))
    .ok_or("panic")?;
    if ranges.len() != blocks.len() {
        return Err(format!("{} ranges for {} blocks", ranges.len(), blocks.len()));
    }
    // the ranges come "in an arbitrary order": find each block's
    let mut res = vec![];
    for &(first, len) in blocks {
        let (wr, _) = want_range(first, len);
        let i = ranges.iter().position(|r| *r == wr).ok_or(format!("ranges {ranges:?}: {wr:?} is missing"))?;
        res.push(outs[i].clone());
    }
    Ok(res)
}

/// multi-wire blocks (one or several on the ring).
///  shape:    the ranges found are the blocks; one output channel per input channel, in ring order from the first
///            wire of the block; output length = longest signal of the block; outputs finite and >= 0;
///  blocks:   with several blocks, each block's result is bit for bit what the block gives alone on the ring;
///  scaling:  every sample of the ring * 2^k: every output * 2^k exactly (Cholesky solve included);
///  identity: output column j comes from input column j: signals synthesised from one avalanche (k_j, a_j) per
///            wire, all different, induced on the neighbours with the factors of wires.rs; output channel j must
///            show a_j at k_j and nothing elsewhere (tolerance 1e-11 of the largest amplitude of the block)
fn rel_block(seed: u64, blocks: &[(usize, usize)]) -> Result<(), String> {
    if blocks.is_empty() || !blocks_valid(blocks) {
        return Err("bad case".into());
    }
    let mut ws = empty_wires();
    for (b, &(first, len)) in blocks.iter().enumerate() {
        block_signals(&mut ws, first, len, seed.wrapping_add(977 * b as u64));
    }
    let outs = ranges_and_outputs(&ws, blocks)?;
    for (&(first, len), o) in blocks.iter().zip(&outs) {
        let longest = (0..len).map(|j| ws[(first + j) % 256].as_ref().unwrap().len()).max().unwrap();
        if o.len() != len {
            return Err(format!("{} output channels for {} input channels", o.len(), len));
        }
        let (_, start) = want_range(first, len);
        for (j, (w, v)) in o.iter().enumerate() {
            if *w != (start + j) % 256 {
                return Err(format!("channel {j} is wire {w}"));
            }
            good(v, longest).map_err(|e| format!("wire {w}: {e}"))?;
        }
        if blocks.len() > 1 {
            let mut alone = empty_wires();
            for j in 0..len {
                alone[(first + j) % 256] = ws[(first + j) % 256].clone();
            }
            let oa = ranges_and_outputs(&alone, &[(first, len)])?;
            if oa[0].len() != o.len() || !oa[0].iter().zip(o).all(|(a, b)| a.0 == b.0 && same_bits(&a.1, &b.1)) {
                return Err(format!("block {first}+{len} alone gives another result than among the other blocks"));
            }
        }
    }
    // scaling every sample by 2^k scales every output by exactly 2^k (Cholesky solve included)
    let k = (seed % 41) as i32 - 20;
    let c = pow2(k);
    let mut scaled = empty_wires();
    for w in 0..256 {
        scaled[w] = ws[w].as_ref().map(|s| s.iter().map(|x| x * c).collect());
    }
    let outs2 = ranges_and_outputs(&scaled, blocks).map_err(|e| format!("scaled: {e}"))?;
    for (o, o2) in outs.iter().zip(&outs2) {
        for ((w, v), (w2, v2)) in o.iter().zip(o2) {
            let want: Vec<f64> = v.iter().map(|x| x * c).collect();
            if w != w2 || !same_bits(&want, v2) {
                return Err(format!("wire {w}: outputs of the block scaled by 2^{k} are not scaled exactly"));
            }
        }
    }
    // identity of the channels
    let n = 40 + (seed % 60) as usize;
    let mut ws = empty_wires();
    let mut xs = vec![];
    for (b, &(first, len)) in blocks.iter().enumerate() {
        let (_, start) = want_range(first, len);
        xs.push(identity_signals(&mut ws, start, len, n, seed.wrapping_add(31 * b as u64)));
    }
    let outs = ranges_and_outputs(&ws, blocks).map_err(|e| format!("identity: {e}"))?;
    for (x, o) in xs.iter().zip(&outs) {
        let amax = x.iter().flatten().map(|p| p.1).fold(0.0, f64::max);
        let tol = BLOCK_IDENTITY_TOL * amax;
        for (xj, (w, v)) in x.iter().zip(o) {
            for (t, y) in v.iter().enumerate() {
                let want = match xj {
                    Some((k, a)) if *k == t => *a,
                    _ => 0.0,
                };
                if !((y - want).abs() <= tol) {
                    return Err(format!(
                        "identity: wire {w} sample {t}: {y:e} where the avalanche put on THIS wire gives {want:e} (tolerance {tol:e})"
                    ));
                }
            }
        }
    }
    Ok(())
}
/// measured: every deviation below 1e-14 of the largest amplitude of the block (114 blocks of the quick tier hold
/// at 1e-14, 100 of them fail at 1e-16); three orders of margin
const BLOCK_IDENTITY_TOL: f64 = 1e-11;

// ---------------------------------------------------------------------------------------------
// event level: MainEvent::avalanches() under multiplication of EVERY calibrated sample by 2^k

type WireList = Vec<(usize, Vec<f64>)>;
type PadList = Vec<(usize, usize, Vec<f64>)>;
const EVENT_SHAPES: u64 = 7;

/// synthetic event: response-shaped pulses on several wires (induced on the present neighbours), a matching
/// three-row pad pattern one sample EARLIER than the wire pulse (DESIGN A.11: the pad grid starts at offset 3),
/// a few columns, optional noise.
///  shape 0: isolated single wires; 1: one block of 2..=12 wires; 2: a block across the 255/0 seam;
///        3: a seam block and further multi-wire blocks; 4: a long block (30..=90 wires) and a single wire;
///        5: all 256 wires; 6: two blocks separated by one absent wire
fn event_signals(shape: u64, seed: u64) -> (WireList, PadList) {
    let mut r = Rng::new(seed ^ 0xE7E17);
    let wr = verif::wire_response();
    let pr = verif::pad_response();
    let n = r.range(60, 120) as usize;
    let mut runs: Vec<(usize, usize)> = vec![];
    match shape % EVENT_SHAPES {
        0 => {
            let mut pos = r.below(256) as usize;
            for _ in 0..r.range(2, 5) {
                runs.push((pos % 256, 1));
                pos += r.range(2, 50) as usize;
            }
        }
        1 => runs.push((r.below(256) as usize, r.range(2, 12) as usize)),
        2 => {
            let (a, b) = (r.range(1, 6) as usize, r.range(1, 6) as usize);
            runs.push((256 - a, a + b));
        }
        3 => {
            let (a, b) = (r.range(1, 6) as usize, r.range(1, 6) as usize);
            runs.push((256 - a, a + b));
            let mut pos = b + r.range(1, 30) as usize;
            for _ in 0..r.range(1, 3) {
                let len = r.range(2, 10) as usize;
                if pos + len + 1 >= 256 - a {
                    break;
                }
                runs.push((pos, len));
                pos += len + r.range(1, 60) as usize;
            }
        }
        4 => {
            let (first, len) = (r.below(256) as usize, r.range(30, 90) as usize);
            runs.push((first, len));
            runs.push(((first + len + r.range(1, 100) as usize) % 256, 1));
        }
        5 => runs.push((0, 256)),
        _ => {
            let (first, l1, l2) = (r.below(256) as usize, r.range(1, 9) as usize, r.range(1, 9) as usize);
            runs.push((first, l1));
            runs.push(((first + l1 + 1) % 256, l2));
        }
    }
    let mut present = [false; 256];
    for &(s, l) in &runs {
        for j in 0..l {
            present[(s + j) % 256] = true;
        }
    }
    let pl: Vec<usize> = (0..256).filter(|w| present[*w]).collect();
    let mut wires: Vec<Option<Vec<f64>>> = (0..256).map(|w| present[w].then(|| vec![0.0; n])).collect();
    let mut pads: std::collections::BTreeMap<(usize, usize), Vec<f64>> = Default::default();
    let shared_t = r.range(3, (n - 20) as u64) as usize;
    for _ in 0..r.range(2, 6) {
        let w = r.pick(&pl);
        let t0 = if r.chance(1, 2) { shared_t } else { r.range(3, (n - 20) as u64) as usize };
        let a = amplitude(&mut r);
        for d in -4i64..=4 {
            let w2 = (w as i64 + d).rem_euclid(256) as usize;
            if let Some(s) = wires[w2].as_mut() {
                let f = a * NEIGHBOR[d.unsigned_abs() as usize];
                for t in t0..n.min(t0 + wr.len()) {
                    s[t] += f * wr[t - t0];
                }
            }
        }
        if r.chance(7, 8) {
            let c = verif::wire_to_pad_column(w);
            let row = r.range(1, 574) as usize;
            let pa = a * (0.5 + unit(&mut r));
            let (f, l) = (0.2 + 0.4 * unit(&mut r), 0.2 + 0.4 * unit(&mut r));
            for (rw, amp) in [(row - 1, pa * f), (row, pa), (row + 1, pa * l)] {
                let s = pads.entry((c, rw)).or_insert_with(|| vec![0.0; n]);
                for t in t0 - 1..n.min(t0 - 1 + pr.len()) {
                    s[t] += amp * pr[t - (t0 - 1)];
                }
            }
        }
    }
    // noise: none / small / larger with a gain-like factor per channel (calibrated samples are not integers)
    let noise = r.pick(&[0.0, 0.0, 0.3, 3.0]);
    let channel = |s: &mut Vec<f64>, r: &mut Rng| {
        if noise > 0.0 {
            let gain = 0.8 + 0.4 * unit(r);
            for x in s.iter_mut() {
                *x = (*x + noise * (2.0 * unit(r) - 1.0)) * gain;
            }
        }
    };
    let mut wl = vec![];
    for (w, s) in wires.into_iter().enumerate() {
        if let Some(mut s) = s {
            channel(&mut s, &mut r);
            wl.push((w, s));
        }
    }
    let mut pdl = vec![];
    for ((c, rw), mut s) in pads {
        channel(&mut s, &mut r);
        pdl.push((c, rw, s));
    }
    (wl, pdl)
}

fn event_avalanches(w: &WireList, p: &PadList, c: f64) -> Option<Vec<Avalanche>> {
    let sc = |s: &Vec<f64>| s.iter().map(|x| x * c).collect::<Vec<f64>>();
    let w: WireList = w.iter().map(|(i, s)| (*i, sc(s))).collect();
    let p: PadList = p.iter().map(|(a, b, s)| (*a, *b, sc(s))).collect();
    catch(AssertUnwindSafe(move || MainEvent::verif_from_signals(w, p, 0).avalanches()))
}
/// avalanches of the event scaled by 2^k against the avalanches of the event: Ok(number of avalanches)
fn event_scaled_exactly(w: &WireList, p: &PadList, base: &[Avalanche], k: i32) -> Result<usize, String> {
    let c = pow2(k);
    let a1 = event_avalanches(w, p, c).ok_or(format!("panic (scaled by 2^{k})"))?;
    if a1.len() != base.len() {
        return Err(format!("{} avalanches, {} after scaling by 2^{k}", base.len(), a1.len()));
    }
    for (i, (a, b)) in base.iter().zip(&a1).enumerate() {
        let same = |x: f64, y: f64| x.to_bits() == y.to_bits();
        let what = if !same(a.t.get::<second>(), b.t.get::<second>()) {
            "t"
        } else if !same(a.phi.get::<radian>(), b.phi.get::<radian>()) {
            "wire (phi)"
        } else if !same(a.z.get::<meter>(), b.z.get::<meter>()) {
            "z"
        } else if !same(a.wire_amplitude * c, b.wire_amplitude) {
            "wire_amplitude"
        } else if !same(a.pad_amplitude * c, b.pad_amplitude) {
            "pad_amplitude"
        } else {
            continue;
        };
        return Err(format!(
            "avalanche {i} of {}: {what} changes under scaling by 2^{k}: t {:e} phi {:e} z {:e} wire {:e} pad {:e} -> t {:e} phi {:e} z {:e} wire {:e} pad {:e}",
            base.len(),
            a.t.get::<second>(), a.phi.get::<radian>(), a.z.get::<meter>(), a.wire_amplitude, a.pad_amplitude,
            b.t.get::<second>(), b.phi.get::<radian>(), b.z.get::<meter>(), b.wire_amplitude, b.pad_amplitude
        ));
    }
    Ok(base.len())
}
fn rel_event(shape: u64, seed: u64, k: i32) -> Result<usize, String> {
    let (w, p) = event_signals(shape, seed);
    let base = event_avalanches(&w, &p, 1.0).ok_or("panic")?;
    event_scaled_exactly(&w, &p, &base, k)
}
/// measurement aid: the largest interval lo..=hi around 0 on which the event scales exactly
fn event_scan(shape: u64, seed: u64) -> String {
    let (w, p) = event_signals(shape, seed);
    let Some(base) = event_avalanches(&w, &p, 1.0) else { return "panic".into() };
    let (mut lo, mut hi) = (0, 0);
    while lo > -1100 && event_scaled_exactly(&w, &p, &base, lo - 1).is_ok() {
        lo -= 1;
    }
    while hi < 1100 && event_scaled_exactly(&w, &p, &base, hi + 1).is_ok() {
        hi += 1;
    }
    let why = |k: i32| event_scaled_exactly(&w, &p, &base, k).err().unwrap_or_default();
    format!("{} avalanches; exact for k in {lo}..={hi}; {} | {}", base.len(), why(lo - 1), why(hi + 1))
}

/// table facts used by C17_isolated_pulse_exact(_Q) and by the assert of the routine: every response
/// window of the production grids is negative (wire: samples 0..13; pad: samples 3..17)
fn rel_table() -> Result<(), String> {
    let w = verif::wire_response();
    let p = verif::pad_response();
    if w.len() < 13 || !w[..13].iter().all(|&x| x < 0.0) {
        return Err("wire response: first 13 samples not all negative".into());
    }
    if p.len() < 17 || !p[3..17].iter().all(|&x| x < 0.0) {
        return Err("pad response: samples 3..17 not all negative".into());
    }
    if !w.iter().chain(p.iter()).all(|x| x.is_finite()) {
        return Err("response not finite".into());
    }
    Ok(())
}

fn verdict(r: Result<(), String>) -> String {
    match r {
        Ok(()) => "holds".to_string(),
        Err(e) => format!("fails {e}"),
    }
}

// ---------------------------------------------------------------------------------------------
// generators

fn unit(r: &mut Rng) -> f64 {
    (r.next() >> 11) as f64 / (1u64 << 53) as f64
}
fn log_uniform(r: &mut Rng, lo: f64, hi: f64) -> f64 {
    (lo.ln() + unit(r) * (hi.ln() - lo.ln())).exp()
}
fn length(r: &mut Rng) -> usize {
    match r.below(10) {
        0 => r.range(1, 20) as usize,
        1..=4 => r.range(1, 80) as usize,
        5..=7 => r.range(80, 250) as usize,
        8 => r.range(250, 700) as usize,
        _ => r.pick(&[1usize, 2, 3, 12, 13, 14, 16, 17, 18, 19, 511, 699, 700]),
    }
}
fn amplitude(r: &mut Rng) -> f64 {
    match r.below(6) {
        0 => 1.0,
        1 => 1e4,
        2 => r.range(1, 10000) as f64,
        _ => log_uniform(r, 1.0, 1e4),
    }
}

/// sums of 0..=8 response-shaped pulses + noise, integer-rounded or not
fn pulses(r: &mut Rng, resp: &[f64], n: usize) -> (Vec<f64>, String) {
    let mut s = vec![0.0; n];
    let np = r.below(9) as usize;
    for _ in 0..np {
        let k = if r.chance(1, 3) { n - 1 - (r.below(20) as usize).min(n - 1) } else { r.below(n as u64) as usize };
        let a = amplitude(r);
        for t in k..n.min(k + resp.len()) {
            s[t] += a * resp[t - k];
        }
    }
    let mag = r.pick(&[0.0, 0.0, 0.01, 1.0, 10.0, 100.0, 1000.0]);
    if mag > 0.0 {
        for x in s.iter_mut() {
            *x += mag * (2.0 * unit(r) - 1.0);
        }
    }
    let rounded = r.chance(1, 2);
    if rounded {
        for x in s.iter_mut() {
            *x = x.round();
        }
    }
    (s, format!("pulses{}{}{}", np.min(3), if mag > 0.0 { "-noise" } else { "" }, if rounded { "-int" } else { "" }))
}

fn special(r: &mut Rng, n: usize, which: u64) -> (Vec<f64>, &'static str) {
    let mut v = vec![0.0; n];
    let label = match which {
        0 => {
            for x in v.iter_mut() {
                *x = 1.0 + 1000.0 * unit(r);
            }
            "all-positive"
        }
        1 => {
            for x in v.iter_mut() {
                *x = -(1.0 + 1000.0 * unit(r));
            }
            "all-negative"
        }
        2 => "zeros",
        3 => {
            for x in v.iter_mut() {
                *x = if r.chance(1, 2) { -0.0 } else { 0.0 };
            }
            "signed-zeros"
        }
        4 => {
            for x in v.iter_mut() {
                *x = -r.pick(&[5e-324, 1e-310, 2.2250738585072014e-308, 1e-300, 1e-200]) * (1.0 + unit(r));
                if r.chance(1, 5) {
                    *x = -*x;
                }
            }
            "tiny"
        }
        5 => {
            for x in v.iter_mut() {
                *x = -r.pick(&[1e150, 1e154, 1e160, 1e300, f64::MAX / 4.0]) * (1.0 + unit(r));
                if r.chance(1, 5) {
                    *x = -*x;
                }
            }
            "huge"
        }
        6 => {
            for x in v.iter_mut() {
                *x = -1000.0 * unit(r);
                if r.chance(1, 8) {
                    *x = r.pick(&[f64::NAN, -f64::NAN, f64::INFINITY, f64::NEG_INFINITY, f64::MAX, f64::MIN]);
                }
            }
            "nan-inf"
        }
        _ => {
            for x in v.iter_mut() {
                *x = f64::from_bits(r.next());
            }
            "random-bits"
        }
    };
    (v, label)
}

fn emit(s: &mut Sink, kind: &str, g: (usize, usize, usize, usize), resp: &[f64], signal: &[f64], label: &str) {
    let o = observe(kind, g, resp, signal);
    // non-trivial: the sweep loop is entered for at least one grid point and nothing panics
    let nontrivial = signal.len() >= g.0 + g.2 && !o.contains("panic");
    s.put(
        &format!("c17 {kind} {} {} {} {} {} {}", g.0, g.1, g.2, g.3, fhex(resp), fhex(signal)),
        &o,
        &format!("{kind}-{label}"),
        nontrivial,
    );
}
fn emit_rel(s: &mut Sink, line: String, label: &str) {
    let o = observe_line(&line).unwrap();
    s.put(&line, &o, label, true);
}

pub fn run(tier: &str, seed: u64, s: &mut Sink) {
    let mut r = Rng::new(seed ^ 0xC17);
    let thorough = tier == "thorough";
    let wire = verif::wire_response();
    let pad = verif::pad_response();
    let mul = if thorough { 10 } else { 1 };

    // --- differential cases: structured waveforms on the two production responses
    for _ in 0..700 * mul {
        for (kind, resp, own, other) in [("w", &wire, WIRE_GRID, PAD_GRID), ("p", &pad, PAD_GRID, WIRE_GRID)] {
            let n = length(&mut r);
            let (sig, label) = pulses(&mut r, resp, n);
            // the other grid too (pad response with offset 0 trips the assert: window not negative)
            let g = if r.chance(1, 6) { other } else { own };
            emit(s, kind, g, resp, &sig, &label);
        }
    }
    // --- boundary lengths around offset + look_ahead for every grid point, pulse at the very end
    for (kind, resp, g) in [("w", &wire, WIRE_GRID), ("p", &pad, PAD_GRID)] {
        for n in 0..=20usize {
            let mut sig = vec![0.0; n];
            for (t, x) in sig.iter_mut().enumerate() {
                *x = 100.0 * resp[t + g.0];
            }
            emit(s, kind, g, resp, &sig, "short");
            let (sig, _) = if n > 0 { pulses(&mut r, resp, n) } else { (vec![], String::new()) };
            emit(s, kind, g, resp, &sig, "short");
        }
    }
    // --- special values
    for _ in 0..12 * mul {
        for which in 0..8 {
            for (kind, resp, g) in [("w", &wire, WIRE_GRID), ("p", &pad, PAD_GRID)] {
                let n = length(&mut r).min(if which >= 4 { 120 } else { 700 });
                let (mut sig, label) = special(&mut r, n, which);
                if which >= 4 && r.chance(1, 2) {
                    // a special sample inside an ordinary waveform
                    let (mut base, _) = pulses(&mut r, resp, n);
                    for _ in 0..=r.below(3) {
                        let i = r.below(n as u64) as usize;
                        base[i] = sig[i];
                    }
                    sig = base;
                }
                emit(s, kind, g, resp, &sig, label);
            }
        }
    }
    // --- other responses and grids: window not negative (assert), slices out of range, look_ahead 0,
    //     empty grids, response shorter than the signal / than the window
    for _ in 0..300 * mul {
        let rl = r.boundary(30) as usize;
        let mut resp: Vec<f64> = (0..rl).map(|_| -(0.01 + 50.0 * unit(&mut r))).collect();
        if rl > 0 && r.chance(1, 4) {
            let i = r.below(rl as u64) as usize;
            resp[i] = r.pick(&[0.0, -0.0, 1.0, f64::NAN, f64::NEG_INFINITY, -1e-320]);
        }
        let offlo = r.boundary(6) as usize;
        let offhi = (offlo + r.below(3) as usize).saturating_sub(r.chance(1, 10) as usize);
        let lalo = r.boundary(8) as usize;
        let lahi = (lalo + r.below(4) as usize).saturating_sub(r.chance(1, 10) as usize);
        let n = r.boundary(60) as usize;
        let (sig, _) = if n > 0 && !resp.is_empty() { pulses(&mut r, &resp, n) } else { (vec![-1.0; n], String::new()) };
        emit(s, "x", (offlo, offhi, lalo, lahi), &resp, &sig, "other-response");
    }

    // --- relations on the implementation alone
    emit_rel(s, "rel17table".to_string(), "rel-table-facts");
    for _ in 0..150 * mul {
        for kind in ["w", "p"] {
            let (resp, _) = resp_of(kind);
            let n = length(&mut r);
            let (sig, _) = pulses(&mut r, &resp, n);
            emit_rel(s, format!("rel17prop {kind} {}", fhex(&sig)), "rel-finite-nonneg-length");
            emit_rel(s, format!("rel17plain {kind} {}", fhex(&sig)), "rel-equals-plain");
            let k = r.range(0, 40) as i32 - 20;
            emit_scale(s, kind, k, "s", &sig);
        }
    }
    // --- scale covariance tied to the theorem's hypothesis: in-domain waveforms, every k of -20..=20 (the
    //     predicate MUST hold), then |k| up to and beyond the boundary kmax = 500 of the theorem and of binary64
    for k in -20..=20 {
        for kind in ["w", "p"] {
            let (resp, _) = resp_of(kind);
            let n = length(&mut r);
            let (sig, _) = pulses(&mut r, &resp, n);
            emit_scale(s, kind, k, "s", &sig);
        }
    }
    for _ in 0..(if thorough { 12 } else { 2 }) {
        for kabs in [21, 50, 100, 200, 300, 400, 440, 460, 480, 490, 499, 500, 501, 520, 600, 1000, 1022, 1023, 1024, 1080] {
            for k in [kabs, -kabs] {
                for kind in ["w", "p"] {
                    let (resp, _) = resp_of(kind);
                    let n = length(&mut r).min(300);
                    let (sig, _) = pulses(&mut r, &resp, n);
                    // in-domain waveforms (amplitudes 1..1e4): the predicate MUST hold up to |k| = 400 (so that the
                    // theorem is exercised non-vacuously far from k = 0), must fail beyond 500, either in between
                    emit_scale(s, kind, k, if kabs > 500 { "u" } else if kabs <= 400 { "s" } else { "a" }, &sig);
                }
            }
        }
    }
    // isolated pulse on a single-wire block at EVERY ring position
    for w in 0..256usize {
        for _ in 0..(if thorough { 6 } else { 2 }) {
            let n = r.range(18, 700) as usize;
            let k = match r.below(4) {
                0 => 0,
                1 => n - 18,
                _ => r.below((n - 17) as u64) as usize,
            };
            let a = amplitude(&mut r);
            emit_rel(s, format!("rel17pulse {w} {n} {k} {:016x}", a.to_bits()), "rel-isolated-pulse");
        }
    }
    // multi-wire blocks.  thorough: EVERY length 1..=256 at: both ends of the ring (first wire 0; last wire 255),
    // crossing the seam by one wire on either side, centred on the seam, two random positions; for lengths <= 32
    // additionally at EVERY seam-crossing position.  quick: 21 lengths (1..=10, 16, 17, 100, 255, 256, six random)
    // at the same five fixed positions.  Then rings with two or three blocks (one of them across the seam in
    // half of the cases; blocks separated by a single absent wire).
    let lens: Vec<usize> = if thorough {
        (1..=256).collect()
    } else {
        let mut v = vec![1, 2, 3, 4, 5, 6, 7, 8, 9, 10, 16, 17, 100, 255, 256];
        for _ in 0..6 {
            v.push(r.range(1, 256) as usize);
        }
        v
    };
    for &len in &lens {
        let mut firsts = vec![0usize, (256 - len) % 256, (257 - len) % 256, 255, (256 - len / 2) % 256];
        if thorough {
            firsts.push(r.below(256) as usize);
            firsts.push(r.below(256) as usize);
            if len <= 32 {
                firsts.extend(257 - len..=255);
            }
        }
        firsts.sort();
        firsts.dedup();
        for first in firsts {
            let sd = r.next() >> 16;
            emit_rel(s, format!("rel17block {sd} {first}+{len}"), if len == 1 { "rel-block-single" } else { "rel-block" });
        }
    }
    if !thorough {
        // the cross-talk matrix handed to the Cholesky factorisation (`.unwrap()` in deconvolution/wires.rs) depends
        // on the block LENGTH only: every length once, also in the quick tier
        for len in 1..=256usize {
            if !lens.contains(&len) {
                let sd = r.next() >> 16;
                emit_rel(s, format!("rel17block {sd} {}+{len}", (300 - len) % 256), "rel-block-every-length");
            }
        }
    }
    for i in 0..(if thorough { 150 } else { 16 }) {
        let nb = 2 + (i % 3 == 2) as usize;
        let mut blocks = vec![];
        // first block: across the seam in half of the cases (a wires before it, b after); `pos` = first absent wire
        let mut pos = if i % 2 == 0 {
            let (a, b) = (r.range(1, 10) as usize, r.range(1, 10) as usize);
            blocks.push((256 - a, a + b));
            b
        } else {
            let (f0, l0) = (r.below(40) as usize, r.range(1, 20) as usize);
            blocks.push((f0, l0));
            f0 + l0
        };
        for _ in 1..nb {
            // `gap` absent wires, then the next block (stays below wire 230)
            let gap = if r.chance(1, 3) { 1 } else { r.range(1, 60) as usize };
            let len = r.range(1, 24) as usize;
            blocks.push((pos + gap, len));
            pos += gap + len;
        }
        let sd = r.next() >> 16;
        emit_rel(s, format!("rel17block {sd} {}", blocks_str(&blocks)), "rel-block-several");
    }
    // event level: every k of -20..=20 on a few events of every shape, and larger |k| inside the interval measured
    // to be safe for these events (see EVENT_BIG_K)
    for shape in 0..EVENT_SHAPES {
        let nev = if thorough { 12 } else if shape == 5 { 1 } else { 2 };
        for _ in 0..nev {
            let sd = r.next() >> 16;
            for k in (-20..=20).chain(EVENT_BIG_K) {
                if k != 0 {
                    emit_event(s, shape, sd, k);
                }
            }
        }
        for _ in 0..(if thorough { 200 } else { 20 }) {
            let sd = r.next() >> 16;
            let k = if r.chance(1, 4) { r.pick(&EVENT_BIG_K) } else { r.range(0, 40) as i32 - 20 };
            emit_event(s, shape, sd, if k == 0 { 7 } else { k });
        }
    }
}
/// |k| far beyond -20..=20, near the limit of binary64: measured on these synthetic events (7 shapes x 40 events,
/// scan of k with rel17eventscan) the event-level relation holds for every k of -475..=495 at least; beyond, an
/// intermediate underflows (first * last of the centroid, squares of tiny residuals) or overflows (middle^2, the
/// sum of squared residuals) and z or the choice of the grid point changes.  2400 further events at k = -450, -440,
/// 470, 480: all exact.
const EVENT_BIG_K: [i32; 8] = [-440, -400, -300, -100, 100, 300, 400, 470];

fn emit_scale(s: &mut Sink, kind: &str, k: i32, want: &str, sig: &[f64]) {
    let (line, exact) = scale_line(kind, k, want, sig);
    let o = observe_line(&line).unwrap();
    let label = if k.abs() <= 20 {
        "rel-scale-k20"
    } else if k.abs() > 500 {
        if exact { "rel-scale-beyond-kmax-exact" } else { "rel-scale-beyond-kmax-inexact" }
    } else if exact {
        "rel-scale-bigk-exact"
    } else {
        "rel-scale-bigk-inexact"
    };
    s.put(&line, &o, label, true);
}
fn emit_event(s: &mut Sink, shape: u64, seed: u64, k: i32) {
    let r = rel_event(shape, seed, k);
    // non-trivial: the event has avalanches
    let nontrivial = matches!(r, Ok(n) if n > 0);
    let label = format!("rel-event-shape{shape}{}", if k.abs() > 20 { "-bigk" } else { "" });
    s.put(&format!("rel17event {shape} {seed} {k}"), &verdict(r.map(|_| ())), &label, nontrivial);
}

/// implementation observation for a case line of this module (None: not one of mine)
pub fn observe_line(line: &str) -> Option<String> {
    let t: Vec<&str> = line.split(' ').collect();
    let bad = || Some("bad-case-line".to_string());
    match t[0] {
        "c17" => {
            if t.len() != 8 {
                return bad();
            }
            let p = |s: &str| s.parse::<usize>().ok();
            let (Some(a), Some(b), Some(c), Some(d)) = (p(t[2]), p(t[3]), p(t[4]), p(t[5])) else { return bad() };
            let (Some(resp), Some(sig)) = (parse_floats(t[6]), parse_floats(t[7])) else { return bad() };
            Some(observe(t[1], (a, b, c, d), &resp, &sig))
        }
        "rel17prop" | "rel17plain" if t.len() == 3 => {
            let Some(sig) = parse_floats(t[2]) else { return bad() };
            Some(verdict(if t[0] == "rel17prop" { rel_prop(t[1], &sig) } else { rel_plain(t[1], &sig) }))
        }
        "rel17scale" if t.len() == 7 => {
            let (Ok(k), Some(resp), Some(sig)) = (t[2].parse::<i32>(), parse_floats(t[5]), parse_floats(t[6])) else { return bad() };
            Some(observe_scale(t[1], k, t[4], &resp, &sig))
        }
        "rel17pulse" if t.len() == 5 => {
            let p = |s: &str| s.parse::<usize>().ok();
            let (Some(w), Some(n), Some(k), Some(a)) = (p(t[1]), p(t[2]), p(t[3]), parse_floats(t[4])) else { return bad() };
            if a.len() != 1 {
                return bad();
            }
            Some(verdict(rel_pulse(w, n, k, a[0])))
        }
        "rel17table" if t.len() == 1 => Some(verdict(rel_table())),
        "rel17block" if t.len() == 3 => {
            let (Ok(sd), Some(b)) = (t[1].parse::<u64>(), parse_blocks(t[2])) else { return bad() };
            Some(verdict(rel_block(sd, &b)))
        }
        "rel17event" if t.len() == 4 => {
            let (Ok(sh), Ok(sd), Ok(k)) = (t[1].parse::<u64>(), t[2].parse::<u64>(), t[3].parse::<i32>()) else { return bad() };
            Some(verdict(rel_event(sh, sd, k).map(|_| ())))
        }
        "rel17eventscan" if t.len() == 3 => {
            let (Ok(sh), Ok(sd)) = (t[1].parse::<u64>(), t[2].parse::<u64>()) else { return bad() };
            Some(event_scan(sh, sd))
        }
        _ => None,
    }
}
