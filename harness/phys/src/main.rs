// Harness for the properties decided on the physics crate (C09-C18), built with --cfg alpha_g_verif.
//   vphys gen <property> <tier> <seed> <outdir>   writes cases.txt / impl.txt / meta.txt
//   vphys obs < cases                             prints the implementation's observation per case line
// One module per property; each exports `run(tier, seed, &mut Sink)` and `observe_line(&str) -> Option<String>`.
#[path = "../../det/src/util.rs"]
mod util;

macro_rules! properties {
    ($($m:ident => $id:literal),* $(,)?) => {
        $(mod $m;)*
        fn run_property(prop: &str, tier: &str, seed: u64, sink: &mut util::Sink) -> bool {
            match prop {
                $($id => { $m::run(tier, seed, sink); true })*
                _ => false,
            }
        }
        fn observe_line(line: &str) -> String {
            $(if let Some(o) = $m::observe_line(line) { return o; })*
            "unknown-case".to_string()
        }
    };
}

properties! { c09 => "C09", c10 => "C10", c11 => "C11", c13 => "C13", c14 => "C14", c15 => "C15", c16 => "C16", c17 => "C17", c18 => "C18", e2e => "E2E" }

fn main() {
    util::harness_main(run_property, observe_line);
}
