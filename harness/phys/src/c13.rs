// C13: reconstruction respects the detector's cylindrical and mirror symmetry.
//
// Two kinds of case lines (formats documented in ocaml/run_c13.ml):
//  * `av <recipe> W:.. D:.. P:.. Z:..`  skeleton differential. The event is rebuilt from <recipe>, the real
//    `MainEvent::avalanches()` is run and printed; the numeric kernels (block deconvolution, pad deconvolution,
//    pad centroid) are logged through the cfg hooks as oracle tables, and the extracted Coq skeleton replays
//    block finding / index bookkeeping / column selection / hit extraction / sorting / pairing with them.
//  * `rel-rot <recipe> <k>`, `rel-mir <recipe>`  pairwise relation on the implementation alone: the multiset of
//    avalanches of the rotated (mirrored) event equals the rotated (mirrored) multiset. Cases recognised as
//    members of the two open known-finding classes carry their own tags:
//       `relkf-fullring <recipe> <k>`  rotation of an event in which all 256 wires carry data (F3)
//       `relkf-padtie <recipe>`        mirror of an event with two pad hits of bit-identical amplitude in one
//                                      time bin of one selected column (F6)
//       `relkf-illcond <recipe>`       mirror of an event with a pad hit whose middle^2/(first*last) - 1 < THETA in a
//                                      selected column (F11)
//    The tag is decided by the recogniser, not by the generator's intention; a `relkf-` line whose event is NOT in
//    the class it names prints `fails not-in-class ...`.  Each class has ONE documented failure prefix
//    (`fails rotation` for F3, `fails mirror` for F6 and F11); every other failure of such a line has a different
//    prefix (`fails panic:`, `fails far-from-seam`, `fails pairing-lost`, `fails avalanche-count`, `fails pairing`,
//    `fails z-far`).
//  * `c13-probe-mir <recipe>`, `c13-probe-rot <recipe> <k>`  measurement aids, never generated: the numbers behind
//    THETA and FAR (see the comments there) can be reproduced through `vphys obs`.
// Recipe: n<samples>/w<start>+<len>,../h<wire>@<t0>*<amp bits>,../p<col>.<row>@<t0>*<amp bits>,..[/l<wire>=<len>,..]
use crate::util::*;
use alpha_g_detector::alpha16::aw_map::TpcWirePosition;
use alpha_g_detector::alpha16::ADC32_RATE;
use alpha_g_physics::{verif, Avalanche, MainEvent};
use std::collections::{BTreeMap, BTreeSet};
use uom::si::angle::radian;
use uom::si::f64::{Angle, Time};
use uom::si::length::meter;
use uom::si::time::second;

const NW: usize = 256;
const NCOLS: usize = 32;
const NROWS: usize = 576;
// induced-signal factors used to synthesise neighbouring wire signals (same values as wires.rs; only the
// shape of the generated events depends on them, no oracle does)
const NEIGHBOR: [f64; 5] = [1.0, -0.1275, -0.0365, -0.012, -0.0042];

// ------------------------------------------------------------------------------------------------
// event recipe
// ------------------------------------------------------------------------------------------------
#[derive(Clone, Debug, PartialEq)]
pub struct Ev {
    n: usize,                              // samples per signal
    runs: Vec<(usize, usize)>,             // present wires: cyclic runs (start, len)
    hits: Vec<(usize, usize, f64)>,        // wire pulses: (wire, t0, amplitude); induce on present neighbours
    pads: Vec<(usize, usize, usize, f64)>, // pad pulses: (column, row, t0, amplitude); a pad is occupied iff listed
    lens: Vec<(usize, usize)>,             // per-wire signal length overrides (wire, length): the signal of that wire
                                           // is cut / zero-extended to `length` samples (optional 5th recipe part `l..`)
}

fn fhex(x: f64) -> String {
    format!("{:016x}", x.to_bits())
}
fn unfhex(s: &str) -> f64 {
    f64::from_bits(u64::from_str_radix(s, 16).unwrap())
}

impl Ev {
    fn present(&self) -> Vec<bool> {
        let mut p = vec![false; NW];
        for &(s, l) in &self.runs {
            for j in 0..l {
                p[(s + j) % NW] = true;
            }
        }
        p
    }
    fn recipe(&self) -> String {
        let j = |v: Vec<String>| if v.is_empty() { "-".to_string() } else { v.join(",") };
        let base = format!(
            "n{}/w{}/h{}/p{}",
            self.n,
            j(self.runs.iter().map(|(s, l)| format!("{s}+{l}")).collect()),
            j(self.hits.iter().map(|(w, t, a)| format!("{w}@{t}*{}", fhex(*a))).collect()),
            j(self.pads.iter().map(|(c, r, t, a)| format!("{c}.{r}@{t}*{}", fhex(*a))).collect())
        );
        if self.lens.is_empty() {
            base
        } else {
            format!("{base}/l{}", j(self.lens.iter().map(|(w, l)| format!("{w}={l}")).collect()))
        }
    }
    fn parse(s: &str) -> Option<Ev> {
        let parts: Vec<&str> = s.split('/').collect();
        if parts.len() != 4 && parts.len() != 5 {
            return None;
        }
        let list = |p: &str, pre: char| -> Option<Vec<String>> {
            let body = p.strip_prefix(pre)?;
            Some(if body == "-" { vec![] } else { body.split(',').map(|x| x.to_string()).collect() })
        };
        let n = parts[0].strip_prefix('n')?.parse().ok()?;
        let mut runs = vec![];
        for e in list(parts[1], 'w')? {
            let (a, b) = e.split_once('+')?;
            runs.push((a.parse().ok()?, b.parse().ok()?));
        }
        let mut hits = vec![];
        for e in list(parts[2], 'h')? {
            let (w, rest) = e.split_once('@')?;
            let (t, a) = rest.split_once('*')?;
            hits.push((w.parse().ok()?, t.parse().ok()?, unfhex(a)));
        }
        let mut pads = vec![];
        for e in list(parts[3], 'p')? {
            let (cr, rest) = e.split_once('@')?;
            let (c, r) = cr.split_once('.')?;
            let (t, a) = rest.split_once('*')?;
            pads.push((c.parse().ok()?, r.parse().ok()?, t.parse().ok()?, unfhex(a)));
        }
        let mut lens = vec![];
        if parts.len() == 5 {
            for e in list(parts[4], 'l')? {
                let (w, l) = e.split_once('=')?;
                let (w, l): (usize, usize) = (w.parse().ok()?, l.parse().ok()?);
                if w >= NW || l > 4096 {
                    return None;
                }
                lens.push((w, l));
            }
        }
        Some(Ev { n, runs, hits, pads, lens })
    }
    /// rotation by k pad columns = 8k wires
    fn rotate(&self, k: usize) -> Ev {
        Ev {
            n: self.n,
            runs: self.runs.iter().map(|&(s, l)| ((s + 8 * k) % NW, l)).collect(),
            hits: self.hits.iter().map(|&(w, t, a)| ((w + 8 * k) % NW, t, a)).collect(),
            pads: self.pads.iter().map(|&(c, r, t, a)| ((c + k) % NCOLS, r, t, a)).collect(),
            lens: self.lens.iter().map(|&(w, l)| ((w + 8 * k) % NW, l)).collect(),
        }
    }
    /// mirror about the mid-plane: row r -> 575 - r
    fn mirror(&self) -> Ev {
        Ev {
            n: self.n,
            runs: self.runs.clone(),
            hits: self.hits.clone(),
            pads: self.pads.iter().map(|&(c, r, t, a)| (c, NROWS - 1 - r, t, a)).collect(),
            lens: self.lens.clone(),
        }
    }
    /// calibrated signals: every float operation is done in recipe order, so a rotated/mirrored recipe gives
    /// bit-identical signals on the rotated/mirrored channels
    fn signals(&self) -> (Vec<(usize, Vec<f64>)>, Vec<(usize, usize, Vec<f64>)>) {
        let wr = wire_response();
        let pr = pad_response();
        let present = self.present();
        let mut wires = vec![];
        for w in 0..NW {
            if !present[w] {
                continue;
            }
            let mut s = vec![0.0f64; self.n];
            for &(hw, t0, amp) in &self.hits {
                let d = ((w + NW - hw) % NW).min((hw + NW - w) % NW);
                if d < NEIGHBOR.len() {
                    let f = amp * NEIGHBOR[d];
                    for (k, r) in wr.iter().enumerate() {
                        if t0 + k >= self.n {
                            break;
                        }
                        s[t0 + k] += f * r;
                    }
                }
            }
            // per-wire length: the LAST override of a wire counts (cut or zero-extended)
            if let Some(&(_, l)) = self.lens.iter().rev().find(|(lw, _)| *lw == w) {
                s.resize(l, 0.0);
            }
            wires.push((w, s));
        }
        let mut pm: BTreeMap<(usize, usize), Vec<f64>> = BTreeMap::new();
        for &(c, r, t0, amp) in &self.pads {
            let s = pm.entry((c, r)).or_insert_with(|| vec![0.0f64; self.n]);
            for (k, x) in pr.iter().enumerate() {
                if t0 + k >= self.n {
                    break;
                }
                s[t0 + k] += amp * x;
            }
        }
        (wires, pm.into_iter().map(|((c, r), s)| (c, r, s)).collect())
    }
    fn event(&self) -> MainEvent {
        let (w, p) = self.signals();
        MainEvent::verif_from_signals(w, p, 0)
    }
}

fn wire_response() -> &'static Vec<f64> {
    static R: std::sync::OnceLock<Vec<f64>> = std::sync::OnceLock::new();
    R.get_or_init(verif::wire_response)
}
fn pad_response() -> &'static Vec<f64> {
    static R: std::sync::OnceLock<Vec<f64>> = std::sync::OnceLock::new();
    R.get_or_init(verif::pad_response)
}

// ------------------------------------------------------------------------------------------------
// canonical avalanches
// ------------------------------------------------------------------------------------------------
/// (wire index, time bin, z bits, wire amplitude bits, pad amplitude bits); 9999 = not a wire angle / bin time
type Canon = (usize, usize, u64, u64, u64);

fn phi_table() -> &'static Vec<u64> {
    static T: std::sync::OnceLock<Vec<u64>> = std::sync::OnceLock::new();
    T.get_or_init(|| {
        (0..NW)
            .map(|i| Angle::new::<radian>(TpcWirePosition::try_from(i).unwrap().phi()).get::<radian>().to_bits())
            .collect()
    })
}
fn t_table() -> &'static Vec<u64> {
    static T: std::sync::OnceLock<Vec<u64>> = std::sync::OnceLock::new();
    T.get_or_init(|| (0..4096).map(|t| Time::new::<second>(t as f64 / ADC32_RATE).get::<second>().to_bits()).collect())
}
fn canon(a: &Avalanche) -> Canon {
    let pb = a.phi.get::<radian>().to_bits();
    let tb = a.t.get::<second>().to_bits();
    (
        phi_table().iter().position(|&x| x == pb).unwrap_or(9999),
        t_table().iter().position(|&x| x == tb).unwrap_or(9999),
        a.z.get::<meter>().to_bits(),
        a.wire_amplitude.to_bits(),
        a.pad_amplitude.to_bits(),
    )
}
fn canon_str(c: &Canon) -> String {
    format!("{}.{}.{:016x}.{:016x}.{:016x}", c.0, c.1, c.2, c.3, c.4)
}
fn join(v: Vec<String>) -> String {
    if v.is_empty() {
        "-".to_string()
    } else {
        v.join(",")
    }
}

// ------------------------------------------------------------------------------------------------
// kernel tables through the hooks
// ------------------------------------------------------------------------------------------------
fn vec_str(v: &[f64]) -> String {
    let mut s = format!("{}", v.len());
    for (i, x) in v.iter().enumerate() {
        if x.to_bits() != 0 {
            s.push_str(&format!("~{}^{}", i, fhex(*x)));
        }
    }
    s
}

struct Tables {
    ranges: Vec<(usize, usize)>,
    d: Vec<Vec<(usize, Vec<f64>)>>,
    p: Vec<(usize, usize, Vec<f64>)>,
    z: BTreeMap<(usize, u64, u64, u64), u64>,
    /// per selected column, the concatenation of verif::match_column_inputs
    hook_avalanches: Vec<Canon>,
    /// two pad hits of bit-identical amplitude in one time bin of one selected column
    pad_tie: bool,
    /// smallest conditioning number middle^2 / (first * last) - 1 over the pad hits of the selected columns,
    /// evaluated in binary64 exactly as matching.rs evaluates the argument of its first `ln` (inf: no pad hit)
    cond_min: f64,
    /// the pad hits of the selected columns: (time bin, amplitude bits, z)
    pad_hits: Vec<(usize, u64, f64)>,
    /// largest deconvolved wire amplitude of the event (the scale of its wire hits)
    wmax: f64,
}

/// Class `centroid_ill_conditioned` (F11): some pad hit of a selected column has cond = middle^2/(first*last) - 1
/// < THETA.  The mirror discrepancy is |z + z'| = (PAD_PITCH_Z / 2) * |ln fl(l/f) + ln fl(f/l)| / ln(1 + cond):
/// sigma^2 is bit-identical in both orientations (f * l commutes), but the two quotients are rounded independently
/// (absolute error <= 2^-53 above 1, <= 2^-54 below 1), which near 1 is an ABSOLUTE error of their logarithms; it
/// is divided by ln(1 + cond) ~ cond.  Hence |z + z'| <= 0.002 * 1.5 * 2^-53 / cond + 6e-16 m, and 1e-9 m is
/// guaranteed for cond >= 3.33e-10 (explained on a witness in coq/Signal/Avalanches_float_proofs.v, section 5).
/// MEASURED on the unchanged tree (120 000 single-hit events, neighbour/middle = 1 - eps, eps log-uniform in
/// 1e-16..1e-3 and a targeted sample with cond in 1e-10..6.3e-10): largest |z + z'| * cond = 2.23e-19 m (= 0.002 *
/// 2^-53); the 1e-9 m tolerance is missed for cond up to 2.2214e-10 and never above (largest discrepancy seen
/// 2.5e-4 m at cond ~ 1e-15); with both neighbours at (1 - eps) * middle, cond ~ 2 eps, i.e. the tolerance holds
/// for eps > 1.2e-10.  One neighbour alone close to the middle (the other at 0.2..0.6) is well conditioned.
/// THETA is set just above the measured boundary and above the analytic one.
const THETA: f64 = 3.4e-10; // bits 3df75d57df90fadf; the same constant as Signal/Avalanches.v THETA

fn cond_number(f: f64, m: f64, l: f64) -> f64 {
    m.powi(2) / (f * l) - 1.0
}

/// centroid z of an isolated three-row pattern, from the implementation (None: not a pad hit)
fn centroid(row: usize, f: f64, m: f64, l: f64) -> Option<u64> {
    let wire_indices = [8usize, 9, 10, 11, 12, 13, 14, 15];
    let mut wi: [Vec<f64>; 8] = Default::default();
    wi[0] = vec![1.0];
    let mut col: Vec<Vec<f64>> = vec![Vec::new(); NROWS];
    col[row - 1] = vec![f];
    col[row] = vec![m];
    col[row + 1] = vec![l];
    let col: [Vec<f64>; NROWS] = col.try_into().unwrap();
    let out = verif::match_column_inputs(wire_indices, &wi, &col);
    out.first().map(|a| a.z.get::<meter>().to_bits())
}

fn tables(ev: &MainEvent) -> Tables {
    let (ws, ps) = ev.verif_signals();
    let ranges = verif::contiguous_ranges(ws);
    let mut d = vec![];
    let mut wire_inputs: Vec<Vec<f64>> = vec![Vec::new(); NW];
    let mut columns = BTreeSet::new();
    for &r in &ranges {
        let out = verif::wire_range_deconvolution(ws, r);
        for (i, input) in &out {
            wire_inputs[*i] = input.clone();
            columns.insert(verif::wire_to_pad_column(*i));
        }
        d.push(out);
    }
    let mut p = vec![];
    let mut pin: BTreeMap<(usize, usize), Vec<f64>> = BTreeMap::new();
    for c in 0..NCOLS {
        for r in 0..NROWS {
            if let Some(s) = ps[c][r].as_ref() {
                let o = verif::pad_deconvolution(s);
                pin.insert((c, r), o.clone());
                p.push((c, r, o));
            }
        }
    }
    // centroid table + tie recogniser, on the selected columns
    let mut z = BTreeMap::new();
    let mut pad_tie = false;
    let mut cond_min = f64::INFINITY;
    let mut pad_hits = vec![];
    let empty: Vec<f64> = Vec::new();
    for &c in &columns {
        let rows: BTreeSet<usize> = pin.keys().filter(|k| k.0 == c).map(|k| k.1).collect();
        let tmax = rows.iter().map(|r| pin[&(c, *r)].len()).max().unwrap_or(0);
        let mut amps_at_t: BTreeMap<usize, Vec<u64>> = BTreeMap::new();
        for &row in &rows {
            if row == 0 || row == NROWS - 1 {
                continue;
            }
            let mid = &pin[&(c, row)];
            let fst = pin.get(&(c, row - 1)).unwrap_or(&empty);
            let lst = pin.get(&(c, row + 1)).unwrap_or(&empty);
            for t in 0..tmax {
                let m = mid.get(t).copied().unwrap_or(0.0);
                if !(m > 0.0) {
                    continue;
                }
                let f = fst.get(t).copied().unwrap_or(0.0);
                let l = lst.get(t).copied().unwrap_or(0.0);
                if let Some(zb) = centroid(row, f, m, l) {
                    z.insert((row, f.to_bits(), m.to_bits(), l.to_bits()), zb);
                    cond_min = cond_min.min(cond_number(f, m, l));
                    pad_hits.push((t, m.to_bits(), f64::from_bits(zb)));
                    let e = amps_at_t.entry(t).or_default();
                    if e.contains(&m.to_bits()) {
                        pad_tie = true;
                    }
                    e.push(m.to_bits());
                }
            }
        }
    }
    // composition of the hooks (must reproduce avalanches(); checked by the caller)
    let mut hook_avalanches = vec![];
    for &c in &columns {
        let mut col: Vec<Vec<f64>> = vec![Vec::new(); NROWS];
        for r in 0..NROWS {
            if let Some(o) = pin.get(&(c, r)) {
                col[r] = o.clone();
            }
        }
        let col: [Vec<f64>; NROWS] = col.try_into().unwrap();
        let wr = verif::pad_column_to_wires(c);
        let idx: [usize; 8] = wr.clone().collect::<Vec<_>>().try_into().unwrap();
        let wi: [Vec<f64>; 8] = wire_inputs[wr].to_vec().try_into().unwrap();
        hook_avalanches.extend(verif::match_column_inputs(idx, &wi, &col).iter().map(canon));
    }
    let wmax = wire_inputs.iter().flatten().copied().fold(0.0f64, f64::max);
    Tables { ranges, d, p, z, hook_avalanches, pad_tie, cond_min, pad_hits, wmax }
}

fn observe_av(e: &Ev) -> (String, String, bool, bool, f64) {
    // returns (table part of the case line, observation, nontrivial, pad_tie, cond_min)
    let e2 = e.clone();
    let r = catch(move || {
        let ev = e2.event();
        let av: Vec<Canon> = ev.avalanches().iter().map(canon).collect();
        let tb = tables(&ev);
        (av, tb)
    });
    let Some((av, tb)) = r else {
        return ("W:- D:- P:- Z:-".to_string(), "panic".to_string(), false, false, f64::INFINITY);
    };
    let present = e.present();
    let w = join((0..NW).filter(|i| present[*i]).map(|i| i.to_string()).collect());
    let d = if tb.d.is_empty() {
        "-".to_string()
    } else {
        tb.d.iter()
            .map(|blk| {
                format!(
                    "{}={}",
                    blk.iter().map(|(i, _)| i.to_string()).collect::<Vec<_>>().join(","),
                    blk.iter().map(|(_, v)| vec_str(v)).collect::<Vec<_>>().join("/")
                )
            })
            .collect::<Vec<_>>()
            .join(";")
    };
    let p = if tb.p.is_empty() {
        "-".to_string()
    } else {
        tb.p.iter().map(|(c, r, v)| format!("{c}.{r}={}", vec_str(v))).collect::<Vec<_>>().join(";")
    };
    let z = if tb.z.is_empty() {
        "-".to_string()
    } else {
        tb.z.iter()
            .map(|((r, f, m, l), z)| format!("{r},{f:016x},{m:016x},{l:016x}={z:016x}"))
            .collect::<Vec<_>>()
            .join(";")
    };
    let mut rs = tb.ranges.clone();
    rs.sort();
    let mut obs = format!(
        "ok R={} A={}",
        join(rs.iter().map(|(a, b)| format!("{a}-{b}")).collect()),
        join(av.iter().map(canon_str).collect())
    );
    if tb.hook_avalanches != av {
        obs.push_str(" hooks-differ");
    }
    (format!("W:{w} D:{d} P:{p} Z:{z}"), obs, !av.is_empty(), tb.pad_tie, tb.cond_min)
}

// ------------------------------------------------------------------------------------------------
// pairwise relations on the implementation
// ------------------------------------------------------------------------------------------------
/// catch_unwind keeping the panic message (one line)
fn catch_msg<T>(f: impl FnOnce() -> T + std::panic::UnwindSafe) -> Result<T, String> {
    std::panic::catch_unwind(f).map_err(|e| {
        let m = if let Some(s) = e.downcast_ref::<&str>() {
            s.to_string()
        } else if let Some(s) = e.downcast_ref::<String>() {
            s.clone()
        } else {
            "?".to_string()
        };
        m.replace(['\n', '\r'], " ")
    })
}

fn run_event(e: &Ev) -> Result<Vec<Canon>, String> {
    let e = e.clone();
    catch_msg(move || e.event().avalanches().iter().map(canon).collect())
}

/// what the recognisers say about an event (computed from the event through the hooks, never from the generator)
#[derive(Clone, Debug)]
struct Class {
    tie: bool,
    cond_min: f64,
    pad_hits: Vec<(usize, u64, f64)>,
    wmax: f64,
}
impl Class {
    fn illcond(&self) -> bool {
        self.cond_min < THETA
    }
}
fn classify(e: &Ev) -> Option<Class> {
    let e2 = e.clone();
    let tb = catch(move || tables(&e2.event()))?;
    Some(Class { tie: tb.pad_tie, cond_min: tb.cond_min, pad_hits: tb.pad_hits, wmax: tb.wmax })
}

fn rot_detail(k: usize, want: &[Canon], got: &[Canon]) -> String {
    let only_want: Vec<&Canon> = want.iter().filter(|c| !got.contains(c)).collect();
    let only_got: Vec<&Canon> = got.iter().filter(|c| !want.contains(c)).collect();
    format!(
        "k={k}: {} avalanches expected, {} found; expected-only {} e.g. {}; found-only {} e.g. {}",
        want.len(),
        got.len(),
        only_want.len(),
        only_want.first().map(|c| canon_str(c)).unwrap_or("-".into()),
        only_got.len(),
        only_got.first().map(|c| canon_str(c)).unwrap_or("-".into())
    )
}

/// rotation relation, every event outside the class full_ring_256: bit-identical multisets
fn rel_rot(e: &Ev, k: usize) -> String {
    let (a, b) = match (run_event(e), run_event(&e.rotate(k))) {
        (Ok(a), Ok(b)) => (a, b),
        (Err(m), _) | (_, Err(m)) => return format!("fails panic:{m}"),
    };
    let mut want: Vec<Canon> = a.iter().map(|c| ((c.0 + 8 * k) % NW, c.1, c.2, c.3, c.4)).collect();
    let mut got = b;
    want.sort();
    got.sort();
    if want == got {
        return "holds".to_string();
    }
    format!("fails rotation {}", rot_detail(k, &want, &got))
}

// Class full_ring_256 (F3).  The documented failure: the one block of a full ring always starts at wire 0, so the
// banded (non-circulant) solve sees the 255/0 seam as an edge; amplitudes near the seam change and rounding-level
// residues of the cross-talk removal appear or disappear as extra avalanches anywhere on the ring.
// MEASURED on the unchanged tree (two samples, 1600 full-ring events x 31 rotations = 49 600 pairs, hits at and away
// from the seam, stray pads; reproduce with `c13-probe-rot`): largest |difference of wire amplitude| / (largest deconvolved wire
// amplitude of the event) between an avalanche and its rotated counterpart (a missing counterpart counts with its
// whole amplitude), by distance d of the wire from the nearer of the two seams (the seam of the event and the seam
// of the rotated event):
//    d=0: 5e-1   1: 2e-1   2: 1e-1   3: 5e-2   4: 1e-2   5: 5e-3   6: 2e-3   7: 4e-4   8: 4e-4   9: 6e-5  10: 8e-5
//    11: 3e-5  12: 2e-6  13: 1e-6  14: 1e-6  15: 1e-7  16: 5e-8  17..18: 7e-8  19..20: 9e-9  21..22: 6e-10
//    23: 2e-10  24: 1e-10  25: 5e-11  26: 2e-11  27..28: 3e-12  29..30: 5e-13  31..35: 1e-13..1e-15  36 and more: <= 3e-16
// The edge effect decays geometrically (about a factor 2.5 per wire) and is NOT below 1e-9 at 6 wires (the
// statement "more than 5 wires from the seam agree to 1e-9" is false: 2e-3 there); z and pad amplitude of
// rounding-level avalanches (wire amplitude ~1e-16 of the largest) change at any distance because such residues
// re-pair with stray pad hits.  The strongest relation found to hold, checked on every full-ring line, three tiers
// by distance from both seams, amplitudes relative to the event's largest deconvolved wire amplitude:
//    more than  5 wires: an avalanche above 2e-2 has a counterpart (same wire, same time bin) within 2e-2;
//    more than 12 wires: an avalanche above 1e-4 has a counterpart within 1e-4;
//    more than 24 wires: an avalanche above 1e-6 has a counterpart within 1e-9 with bit-identical z and pad amplitude.
// (margins over the measured envelope: 10x, 100x, 20x; no false alarm on the 49 600 pairs.)  A violation prints `fails far-from-seam`, a panic
// `fails panic:<message>`; only the documented kind prints `fails rotation`.
const FAR: [(usize, f64, f64, bool); 3] = [(24, 1e-6, 1e-9, true), (12, 1e-4, 1e-4, false), (5, 2e-2, 2e-2, false)];

fn rel_rot_fullring(e: &Ev, k: usize) -> String {
    if !e.present().iter().all(|x| *x) {
        return "fails not-in-class full_ring_256".to_string();
    }
    let (a, b) = match (run_event(e), run_event(&e.rotate(k))) {
        (Ok(a), Ok(b)) => (a, b),
        (Err(m), _) | (_, Err(m)) => return format!("fails panic:{m}"),
    };
    let mut want: Vec<Canon> = a.iter().map(|c| ((c.0 + 8 * k) % NW, c.1, c.2, c.3, c.4)).collect();
    let mut got = b;
    want.sort();
    got.sort();
    if want == got {
        return "holds".to_string();
    }
    let Some(wmax) = classify(e).map(|c| c.wmax) else { return "fails panic:hooks".to_string() };
    // distance (in wires) from the nearer seam: wires 255/0 of the rotated event, wires 255/0 of the event
    let dist = |w: usize| {
        let o = (w + NW - (8 * k) % NW) % NW;
        w.min(NW - 1 - w).min(o.min(NW - 1 - o))
    };
    let check = |from: &[Canon], to: &[Canon], side: &str| -> Option<String> {
        for c in from {
            if c.0 >= NW {
                return Some(format!("{side} avalanche {} is not on a wire", canon_str(c)));
            }
            let (d, x) = (dist(c.0), f64::from_bits(c.3));
            let partner = to.iter().find(|g| g.0 == c.0 && g.1 == c.1);
            let dy = partner.map(|g| (x - f64::from_bits(g.3)).abs()).unwrap_or(x.abs());
            let Some(&(_, signif, tol, exact)) = FAR.iter().find(|t| d > t.0) else { continue };
            if !(x > signif * wmax) {
                continue;
            }
            let same = !exact || partner.map(|g| g.2 == c.2 && g.4 == c.4).unwrap_or(false);
            if !same || !(dy <= tol * wmax) {
                return Some(format!(
                    "{side} {} at {d} wires from the seam: counterpart {}",
                    canon_str(c),
                    partner.map(canon_str).unwrap_or("-".into())
                ));
            }
        }
        None
    };
    if let Some(m) = check(&want, &got, "expected").or_else(|| check(&got, &want, "found")) {
        return format!("fails far-from-seam k={k}: {m}");
    }
    format!("fails rotation {}", rot_detail(k, &want, &got))
}

/// mirror relation, every event outside the classes pad_amplitude_tie and centroid_ill_conditioned
fn rel_mir(e: &Ev) -> String {
    rel_mir_tol(e, 1e-9)
}

fn rel_mir_tol(e: &Ev, tol: f64) -> String {
    let (a, b) = match (run_event(e), run_event(&e.mirror())) {
        (Ok(a), Ok(b)) => (a, b),
        (Err(m), _) | (_, Err(m)) => return format!("fails panic:{m}"),
    };
    let mut want = a;
    let mut got = b;
    // one avalanche per (wire, t): pair them by that key
    want.sort_by_key(|c| (c.0, c.1, c.3, c.4));
    got.sort_by_key(|c| (c.0, c.1, c.3, c.4));
    if want.len() != got.len() {
        return format!("fails avalanche-count: {} avalanches expected, {} found", want.len(), got.len());
    }
    for (w, g) in want.iter().zip(&got) {
        let same = w.0 == g.0 && w.1 == g.1 && w.3 == g.3 && w.4 == g.4;
        if !same {
            return format!("fails pairing: {} mirrored gives {}", canon_str(w), canon_str(g));
        }
    }
    for (w, g) in want.iter().zip(&got) {
        let (zw, zg) = (f64::from_bits(w.2), f64::from_bits(g.2));
        if !((zw + zg).abs() <= tol) {
            return format!(
                "fails mirror: {} mirrored gives {} (z {:e} -> {:e})",
                canon_str(w),
                canon_str(g),
                zw,
                zg
            );
        }
    }
    "holds".to_string()
}

// Class centroid_ill_conditioned (F11).  The documented failure: same wires, time bins and amplitudes, z of the
// ill-conditioned hits not negated within 1e-9 m; |z + z'| stays below one pad pitch plus a margin (each z is
// within about half a pitch of its row centre).  Anything else (count, pairing, a z further off) has another prefix.
const ILL_MAX: f64 = 6.0e-3;
fn rel_mir_illcond(e: &Ev) -> String {
    match classify(e) {
        None => return "fails panic:hooks".to_string(),
        Some(c) if !c.illcond() => return "fails not-in-class centroid_ill_conditioned".to_string(),
        _ => {}
    }
    let o = rel_mir_tol(e, 1e-9);
    if o.starts_with("fails mirror") && !rel_mir_tol(e, ILL_MAX).starts_with("holds") {
        return o.replacen("fails mirror", "fails z-far", 1);
    }
    o
}

// Class pad_amplitude_tie (F6).  The documented failure: which of the tied pad hits a wire hit is paired with
// flips.  Preserved all the same (else `fails pairing-lost`): the multiset of (wire, t, wire amplitude); the
// multiset of (t, pad amplitude); every avalanche of the mirrored event carries the mirrored z of a pad hit of
// the original event with that time bin and amplitude; and when no pad hit is left unpaired in either event,
// the multiset of (t, pad amplitude, |z|).
fn rel_mir_padtie(e: &Ev) -> String {
    let cl = match classify(e) {
        None => return "fails panic:hooks".to_string(),
        Some(c) if !c.tie => return "fails not-in-class pad_amplitude_tie".to_string(),
        Some(c) => c,
    };
    let ztol = if cl.illcond() { ILL_MAX } else { 1e-9 };
    let (a, b) = match (run_event(e), run_event(&e.mirror())) {
        (Ok(a), Ok(b)) => (a, b),
        (Err(m), _) | (_, Err(m)) => return format!("fails panic:{m}"),
    };
    let key_w = |v: &[Canon]| {
        let mut k: Vec<(usize, usize, u64)> = v.iter().map(|c| (c.0, c.1, c.3)).collect();
        k.sort();
        k
    };
    let key_p = |v: &[Canon]| {
        let mut k: Vec<(usize, u64)> = v.iter().map(|c| (c.1, c.4)).collect();
        k.sort();
        k
    };
    if key_w(&a) != key_w(&b) {
        return format!("fails pairing-lost wire side: {} avalanches, mirrored {}", a.len(), b.len());
    }
    if key_p(&a) != key_p(&b) {
        return "fails pairing-lost pad side".to_string();
    }
    for g in &b {
        let zg = f64::from_bits(g.2);
        if !cl.pad_hits.iter().any(|(t, m, z)| *t == g.1 && *m == g.4 && (z + zg).abs() <= ztol) {
            return format!("fails pairing-lost: {} is not a mirrored pad hit of the event", canon_str(g));
        }
    }
    let key_z = |v: &[Canon]| {
        let mut k: Vec<(usize, u64, f64)> = v.iter().map(|c| (c.1, c.4, f64::from_bits(c.2).abs())).collect();
        k.sort_by(|x, y| x.partial_cmp(y).unwrap());
        k
    };
    let (za, zb) = (key_z(&a), key_z(&b));
    let z_same = za.iter().zip(&zb).all(|(x, y)| (x.2 - y.2).abs() <= ztol);
    // every pad hit of a (column, t) is paired iff the event has as many avalanches as usable pad hits; decided
    // per time bin and amplitude on the multiset: a pad hit left over can legitimately replace its tied partner
    let all_paired = {
        let mut used: Vec<(usize, u64)> = a.iter().map(|c| (c.1, c.4)).collect();
        used.sort();
        let mut avail: Vec<(usize, u64)> = cl
            .pad_hits
            .iter()
            .filter(|(t, m, _)| used.binary_search(&(*t, *m)).is_ok())
            .map(|(t, m, _)| (*t, *m))
            .collect();
        avail.sort();
        avail == used
    };
    if all_paired && !z_same {
        return "fails pairing-lost |z| multiset".to_string();
    }
    rel_mir_tol(e, 1e-9)
}

/// measurement aid: `cond_min max|z+z'|` of an event (the numbers behind THETA)
fn probe_mir(e: &Ev) -> String {
    let Some(c) = classify(e) else { return "panic".into() };
    let (Ok(mut a), Ok(mut b)) = (run_event(e), run_event(&e.mirror())) else { return "panic".into() };
    a.sort_by_key(|c| (c.0, c.1, c.3, c.4));
    b.sort_by_key(|c| (c.0, c.1, c.3, c.4));
    let d = a.iter().zip(&b).map(|(w, g)| (f64::from_bits(w.2) + f64::from_bits(g.2)).abs()).fold(0.0f64, f64::max);
    let e2 = e.clone();
    let keys = catch(move || tables(&e2.event()).z.keys().map(|k| format!("{}:{:016x}:{:016x}:{:016x}", k.0, k.1, k.2, k.3)).collect::<Vec<_>>())
        .unwrap_or_default();
    format!("{:e} {:e} {} {} {}", c.cond_min, d, a.len(), b.len(), join(keys))
}

/// measurement aid: per avalanche of the rotated full-ring event present in both, `distance-to-nearest-seam
/// relative-wire-amplitude-difference relative-size z-same pad-same`; unmatched ones as `only-want/only-got`
fn probe_rot(e: &Ev, k: usize) -> String {
    let (Ok(a), Ok(b)) = (run_event(e), run_event(&e.rotate(k))) else { return "panic".into() };
    let want: Vec<Canon> = a.iter().map(|c| ((c.0 + 8 * k) % NW, c.1, c.2, c.3, c.4)).collect();
    let amax = classify(e).map(|c| c.wmax).unwrap_or(0.0);
    let dist = |w: usize| {
        let o = (w + NW - 8 * k % NW) % NW;
        let d1 = w.min(NW - 1 - w);
        let d2 = o.min(NW - 1 - o);
        d1.min(d2)
    };
    let mut out = vec![];
    for w in &want {
        match b.iter().find(|g| g.0 == w.0 && g.1 == w.1) {
            Some(g) => {
                let (x, y) = (f64::from_bits(w.3), f64::from_bits(g.3));
                out.push(format!(
                    "m:{}:{:e}:{:e}:{}:{}",
                    dist(w.0),
                    (x - y).abs() / x.abs().max(y.abs()),
                    x.max(y) / amax,
                    (w.2 == g.2) as u8,
                    (w.4 == g.4) as u8
                ));
            }
            None => out.push(format!("w:{}:{:e}", dist(w.0), f64::from_bits(w.3) / amax)),
        }
    }
    for g in &b {
        if !want.iter().any(|w| g.0 == w.0 && g.1 == w.1) {
            out.push(format!("g:{}:{:e}", dist(g.0), f64::from_bits(g.3) / amax));
        }
    }
    join(out)
}

// ------------------------------------------------------------------------------------------------
// generators
// ------------------------------------------------------------------------------------------------
fn amp(r: &mut Rng, lo: f64, hi: f64) -> f64 {
    lo + (hi - lo) * ((r.next() >> 11) as f64 / (1u64 << 53) as f64)
}

/// add a wire hit with a matching three-row pad pattern one sample earlier
fn add_hit(r: &mut Rng, e: &mut Ev, w: usize, t0: usize, a: f64, row: usize) {
    e.hits.push((w, t0, a));
    let c = verif::wire_to_pad_column(w);
    let pa = amp(r, 0.5, 1.5) * a;
    let (f, l) = (amp(r, 0.2, 0.6), amp(r, 0.2, 0.6));
    e.pads.push((c, row - 1, t0 - 1, pa * f));
    e.pads.push((c, row, t0 - 1, pa));
    e.pads.push((c, row + 1, t0 - 1, pa * l));
}

/// a wire hit whose pad pattern has one or both neighbours at (1 - eps) * middle, eps log-uniform in 1e-16..1e-3:
/// the region where the centroid is ill-conditioned (add_hit keeps the neighbours at 0.2..0.6 of the middle)
fn add_hit_near(r: &mut Rng, e: &mut Ev, w: usize, t0: usize, a: f64, row: usize) {
    e.hits.push((w, t0, a));
    let c = verif::wire_to_pad_column(w);
    let pa = amp(r, 0.5, 1.5) * a;
    let eps = |r: &mut Rng| 10f64.powf(amp(r, -16.0, -3.0));
    let e1 = eps(r);
    let (f, l) = match r.below(4) {
        0 => (1.0 - e1, 1.0 - e1),                       // both, symmetric
        1 => (1.0 - e1, 1.0 - e1 * amp(r, 0.5, 2.0)),    // both, same order of magnitude
        2 => (1.0 - e1, 1.0 - eps(r)),                   // both, independent
        _ => {
            // one neighbour only
            if r.chance(1, 2) {
                (1.0 - e1, amp(r, 0.2, 0.6))
            } else {
                (amp(r, 0.2, 0.6), 1.0 - e1)
            }
        }
    };
    e.pads.push((c, row - 1, t0 - 1, pa * f));
    e.pads.push((c, row, t0 - 1, pa));
    e.pads.push((c, row + 1, t0 - 1, pa * l));
}

/// give some present wires a signal length of their own (cut or zero-extended): exercises the `max` of
/// problem_dimensions and the zero padding of y_matrix (wires.rs:196-224), and t_max of match_column_inputs
fn vary_lengths(r: &mut Rng, e: &mut Ev) {
    let pl = present_list(e);
    if pl.is_empty() {
        return;
    }
    let k = r.range(1, 4) as usize;
    for _ in 0..k {
        let w = r.pick(&pl);
        let len = match r.below(6) {
            0 => r.below(2) as usize, // an empty or one-sample signal
            1 => e.n - 1,
            2 => e.n + 1,
            3 => e.n + r.range(2, 12) as usize,
            _ => r.range(2, (e.n - 1) as u64) as usize,
        };
        e.lens.push((w, len));
    }
    // every wire of one block shorter than n: the block's max is not n
    if r.chance(1, 4) && !e.runs.is_empty() {
        let (s0, l0) = e.runs[r.below(e.runs.len() as u64) as usize];
        if l0 <= 12 {
            let base = r.range(20, (e.n - 1) as u64) as usize;
            for j in 0..l0 {
                e.lens.push(((s0 + j) % NW, base - r.below(4) as usize));
            }
        }
    }
}

fn present_list(e: &Ev) -> Vec<usize> {
    let p = e.present();
    (0..NW).filter(|i| p[*i]).collect()
}

/// hits on random present wires, with pads; `same_t` forces several hits into one time bin
fn sprinkle(r: &mut Rng, e: &mut Ev, nhits: usize) {
    let pl = present_list(e);
    if pl.is_empty() {
        return;
    }
    let shared_t = r.range(3, (e.n - 20) as u64) as usize;
    for _ in 0..nhits {
        let w = r.pick(&pl);
        let t0 = if r.chance(1, 2) { shared_t } else { r.range(3, (e.n - 20) as u64) as usize };
        let a = amp(r, 20.0, 300.0);
        let row = r.range(1, (NROWS - 2) as u64) as usize;
        if r.chance(1, 8) {
            e.hits.push((w, t0, a)); // wire hit without pad partner
        } else {
            add_hit(r, e, w, t0, a, row);
        }
    }
    // stray pad activity in a used column
    if r.chance(1, 3) {
        let w = r.pick(&pl);
        let c = verif::wire_to_pad_column(w);
        let row = r.range(1, (NROWS - 2) as u64) as usize;
        let a = amp(r, 20.0, 200.0);
        let t0 = if r.chance(1, 2) { shared_t - 1 } else { r.range(2, (e.n - 20) as u64) as usize };
        e.pads.push((c, row - 1, t0, a * 0.4));
        e.pads.push((c, row, t0, a));
        e.pads.push((c, row + 1, t0, a * 0.5));
    }
    // boundary rows
    if r.chance(1, 6) {
        let w = r.pick(&pl);
        let c = verif::wire_to_pad_column(w);
        let row = if r.chance(1, 2) { 1 } else { NROWS - 2 };
        let a = amp(r, 20.0, 200.0);
        e.pads.push((c, row - 1, shared_t - 1, a * 0.4));
        e.pads.push((c, row, shared_t - 1, a));
        e.pads.push((c, row + 1, shared_t - 1, a * 0.5));
    }
}

fn new_ev(r: &mut Rng) -> Ev {
    Ev { n: r.range(40, 96) as usize, runs: vec![], hits: vec![], pads: vec![], lens: vec![] }
}

fn ev_random(r: &mut Rng) -> Ev {
    let mut e = new_ev(r);
    let nclusters = r.range(1, 4);
    let mut pos = r.below(NW as u64) as usize;
    for _ in 0..nclusters {
        let len = r.range(1, 14) as usize;
        e.runs.push((pos % NW, len));
        pos += len + r.range(1, 60) as usize;
    }
    let nh = r.range(1, 5) as usize;
    sprinkle(r, &mut e, nh);
    if r.chance(1, 3) {
        vary_lengths(r, &mut e);
    }
    e
}

/// one block straddling the 255/0 seam: `a` wires before the seam, `b` after
fn ev_seam(r: &mut Rng, a: usize, b: usize, others: bool) -> Ev {
    let mut e = new_ev(r);
    e.runs.push((NW - a, a + b));
    if others {
        // further blocks in the middle: exercises swap_remove(0) moving the last middle block to the front
        let mut pos = b + r.range(1, 20) as usize;
        for _ in 0..r.range(1, 3) {
            let len = r.range(1, 10) as usize;
            if pos + len + 1 >= NW - a {
                break;
            }
            e.runs.push((pos, len));
            pos += len + r.range(1, 40) as usize;
        }
    }
    // hits close to the seam
    let t = r.range(3, (e.n - 20) as u64) as usize;
    let w1 = (NW - 1 - r.below(a.min(3) as u64) as usize) % NW;
    let w2 = r.below(b.min(3) as u64) as usize;
    let (a1, a2) = (amp(r, 50.0, 200.0), amp(r, 50.0, 200.0));
    let (r1, r2) = (r.range(1, 280) as usize, r.range(290, 574) as usize);
    add_hit(r, &mut e, w1, t, a1, r1);
    let t2 = if r.chance(1, 2) { t } else { t + 2 };
    add_hit(r, &mut e, w2, t2, a2, r2);
    let extra = r.below(3) as usize;
    sprinkle(r, &mut e, extra);
    if r.chance(1, 3) {
        vary_lengths(r, &mut e);
    }
    e
}

/// blocks touching only one side of the seam, single wires, nearly full rings
fn ev_edge(r: &mut Rng, which: u64) -> Ev {
    let mut e = new_ev(r);
    match which % 8 {
        0 => e.runs.push((0, r.range(1, 12) as usize)),        // starts at wire 0, wire 255 absent
        1 => {
            let l = r.range(1, 12) as usize;
            e.runs.push((NW - l, l)) // ends at wire 255, wire 0 absent
        }
        2 => {
            // both, separated by one absent wire at 0 or 255
            e.runs.push((1, r.range(1, 9) as usize));
            e.runs.push((NW - 6, 6));
        }
        3 => e.runs.push((r.below(NW as u64) as usize, 1)),   // single wire
        4 => e.runs.push((r.below(NW as u64) as usize, 255)), // all but one wire
        5 => {
            // every second wire
            for i in 0..12 {
                e.runs.push(((250 + 2 * i) % NW, 1));
            }
        }
        6 => {} // no wires at all
        _ => {
            e.runs.push((0, 1));
            e.runs.push((NW - 1, 1)); // minimal seam block
        }
    }
    let nh = r.range(1, 3) as usize;
    sprinkle(r, &mut e, nh);
    if which % 8 == 6 {
        // pads without wires
        e.pads.push((3, 100, 10, 80.0));
    }
    if r.chance(1, 8) {
        e.pads.clear(); // wires without pads
    }
    e
}

/// all 256 wires carry data (class full_ring_256)
fn ev_full(r: &mut Rng, near_seam: bool) -> Ev {
    let mut e = new_ev(r);
    e.runs.push((0, NW));
    let t = r.range(3, (e.n - 20) as u64) as usize;
    if near_seam {
        let (a1, a2) = (amp(r, 50.0, 200.0), amp(r, 50.0, 200.0));
        add_hit(r, &mut e, 255, t, a1, 100);
        add_hit(r, &mut e, 0, t + 3, a2, 300);
    } else {
        let w = r.range(20, 230) as usize;
        let a1 = amp(r, 50.0, 200.0);
        add_hit(r, &mut e, w, t, a1, 100);
    }
    let extra = r.below(3) as usize;
    sprinkle(r, &mut e, extra);
    if r.chance(1, 3) {
        vary_lengths(r, &mut e);
    }
    e
}

/// pad patterns with near-equal amplitudes (reaches the class centroid_ill_conditioned for eps < ~1e-10)
fn ev_near(r: &mut Rng) -> Ev {
    let mut e = new_ev(r);
    let start = r.below(NW as u64) as usize;
    let len = r.range(3, 16) as usize;
    e.runs.push((start, len));
    let nh = r.range(1, 3) as usize;
    for _ in 0..nh {
        let w = (start + r.below(len as u64) as usize) % NW;
        let t0 = r.range(3, (e.n - 20) as u64) as usize;
        let a = amp(r, 20.0, 300.0);
        let row = r.range(1, (NROWS - 2) as u64) as usize;
        add_hit_near(r, &mut e, w, t0, a, row);
    }
    if r.chance(1, 3) {
        sprinkle(r, &mut e, 1);
    }
    e
}

/// two pad hits of bit-identical amplitude in one time bin of one column (class pad_amplitude_tie);
/// `doc` = the recipe of DESIGN.md A.12 (F6)
fn ev_tie(r: &mut Rng, doc: bool) -> Ev {
    let mut e = new_ev(r);
    if doc {
        e.n = 80;
        e.runs.push((94, 15));
        e.hits.push((100, 20, 100.0));
        e.hits.push((102, 20, 60.0));
        for base in [100usize, 300] {
            e.pads.push((11, base - 1, 19, 30.0));
            e.pads.push((11, base, 19, 80.0));
            e.pads.push((11, base + 1, 19, 40.0));
        }
        return e;
    }
    let c = r.below(NCOLS as u64) as usize;
    let first = verif::pad_column_to_wires(c).start;
    let start = (first + NW - r.range(0, 5) as usize) % NW;
    e.runs.push((start, 8 + r.range(5, 10) as usize));
    let t = r.range(3, (e.n - 20) as u64) as usize;
    let w1 = first + r.below(4) as usize;
    let w2 = first + 4 + r.below(4) as usize;
    e.hits.push((w1, t, amp(r, 80.0, 120.0)));
    if !r.chance(1, 4) {
        e.hits.push((w2, t, amp(r, 40.0, 70.0))); // else: one wire hit for two tied pad hits (one stays unpaired)
    }
    let a = amp(r, 40.0, 120.0);
    let (f, l) = (a * amp(r, 0.2, 0.6), a * amp(r, 0.2, 0.6));
    let r1 = r.range(1, 280) as usize;
    let r2 = r.range(290, 574) as usize;
    for base in [r1, r2] {
        e.pads.push((c, base - 1, t - 1, f));
        e.pads.push((c, base, t - 1, a));
        e.pads.push((c, base + 1, t - 1, l));
    }
    e
}

// ------------------------------------------------------------------------------------------------
// emission
// ------------------------------------------------------------------------------------------------
fn emit_av(s: &mut Sink, label: &str, e: &Ev) -> (bool, f64) {
    let (tabs, obs, nontrivial, tie, cond_min) = observe_av(e);
    s.put(&format!("av {} {}", e.recipe(), tabs), &obs, label, nontrivial);
    (tie, cond_min)
}

fn emit_rot(s: &mut Sink, label: &str, e: &Ev, k: usize) {
    let full = e.present().iter().all(|x| *x);
    let tag = if full { "relkf-fullring" } else { "rel-rot" };
    let o = if full { rel_rot_fullring(e, k) } else { rel_rot(e, k) };
    let lab = if full { "rot-fullring".to_string() } else { format!("rot-{label}") };
    s.put(&format!("{tag} {} {k}", e.recipe()), &o, &lab, true);
}

/// the tag is decided by the recognisers: exact pad-amplitude tie first, then ill-conditioned centroid
fn emit_mir(s: &mut Sink, label: &str, e: &Ev, class: (bool, f64)) {
    let (tie, cond_min) = class;
    let ill = cond_min < THETA;
    let (tag, o, lab) = if tie {
        ("relkf-padtie", rel_mir_padtie(e), "mir-padtie".to_string())
    } else if ill {
        ("relkf-illcond", rel_mir_illcond(e), "mir-illcond".to_string())
    } else {
        ("rel-mir", rel_mir(e), format!("mir-{label}"))
    };
    s.put(&format!("{tag} {}", e.recipe()), &o, &lab, true);
}

fn emit_all(s: &mut Sink, r: &mut Rng, label: &str, e: &Ev, nrot: usize) {
    let class = emit_av(s, label, e);
    let ks: Vec<usize> = if nrot >= 31 {
        (1..32).collect()
    } else {
        let mut v = vec![1usize, 31];
        while v.len() < nrot {
            let k = r.range(2, 30) as usize;
            if !v.contains(&k) {
                v.push(k);
            }
        }
        v.truncate(nrot);
        v
    };
    for k in ks {
        emit_rot(s, label, e, k);
    }
    emit_mir(s, label, e, class);
}

pub fn run(tier: &str, seed: u64, s: &mut Sink) {
    let mut r = Rng::new(seed ^ 0xC13);
    let thorough = tier == "thorough";
    let known = std::env::var("VERIF_C13_SKIP_KNOWN").is_err();
    let nrot = if thorough { 31 } else { 4 };
    // the two documented witnesses first
    if known {
        let e = ev_tie(&mut r, true);
        emit_all(s, &mut r, "padtie-doc", &e, nrot);
    }
    let n_random = if thorough { 300 } else { 220 };
    for _ in 0..n_random {
        let e = ev_random(&mut r);
        emit_all(s, &mut r, "random", &e, nrot);
    }
    // seam blocks: every length at the seam (thorough), a sample (quick)
    if thorough {
        for len in 2..=24usize {
            for a in 1..len {
                let e = ev_seam(&mut r, a, len - a, (a + len) % 3 == 0);
                emit_all(s, &mut r, "seam", &e, nrot);
            }
        }
        for _ in 0..60 {
            let a = r.range(1, 40) as usize;
            let b = r.range(1, 40) as usize;
            let e = ev_seam(&mut r, a, b, true);
            emit_all(s, &mut r, "seam-merge", &e, nrot);
        }
    } else {
        for _ in 0..110 {
            let a = r.range(1, 12) as usize;
            let b = r.range(1, 12) as usize;
            let others = r.chance(1, 2);
            let e = ev_seam(&mut r, a, b, others);
            emit_all(s, &mut r, if others { "seam-merge" } else { "seam" }, &e, nrot);
        }
    }
    let n_edge = if thorough { 160 } else { 64 };
    for i in 0..n_edge {
        let e = ev_edge(&mut r, i);
        emit_all(s, &mut r, "edge", &e, if thorough { 8 } else { 3 });
    }
    // near-equal pad amplitudes: eps log-uniform over 13 decades, so about 45 % of these are members of the class
    // centroid_ill_conditioned (tag relkf-illcond, decided by the recogniser), the rest must hold as rel-mir
    let n_near = if thorough { 400 } else { 120 };
    for _ in 0..n_near {
        let e = ev_near(&mut r);
        emit_all(s, &mut r, "near", &e, if thorough { 4 } else { 2 });
    }
    // known-finding classes (skeleton differential always; the relations under their own tags)
    let n_full = if thorough { 12 } else { 4 };
    for i in 0..n_full {
        let e = ev_full(&mut r, i % 2 == 0);
        if known {
            emit_all(s, &mut r, "fullring", &e, if thorough { 8 } else { 3 });
        } else {
            let class = emit_av(s, "fullring", &e);
            emit_mir(s, "fullring", &e, class);
        }
    }
    let n_tie = if thorough { 40 } else { 10 };
    for _ in 0..n_tie {
        let e = ev_tie(&mut r, false);
        if known {
            emit_all(s, &mut r, "padtie", &e, 3);
        } else {
            emit_av(s, "padtie", &e);
            emit_rot(s, "padtie", &e, 1 + r.below(31) as usize);
        }
    }
}

/// implementation observation for a case line of this module (None: not one of mine)
pub fn observe_line(line: &str) -> Option<String> {
    let toks: Vec<&str> = line.split(' ').collect();
    match toks.first().copied() {
        Some("av") => {
            let e = Ev::parse(toks.get(1)?)?;
            Some(observe_av(&e).1)
        }
        Some(tag @ ("rel-rot" | "relkf-fullring")) => {
            let e = Ev::parse(toks.get(1)?)?;
            let k: usize = toks.get(2)?.parse().ok()?;
            if !(1..32).contains(&k) {
                return None;
            }
            Some(if tag == "rel-rot" { rel_rot(&e, k) } else { rel_rot_fullring(&e, k) })
        }
        Some("rel-mir") => Some(rel_mir(&Ev::parse(toks.get(1)?)?)),
        Some("relkf-padtie") => Some(rel_mir_padtie(&Ev::parse(toks.get(1)?)?)),
        Some("relkf-illcond") => Some(rel_mir_illcond(&Ev::parse(toks.get(1)?)?)),
        // measurement aid (not generated): conditioning number and mirror discrepancy of an event
        Some("c13-probe-mir") => Some(probe_mir(&Ev::parse(toks.get(1)?)?)),
        Some("c13-probe-rot") => Some(probe_rot(&Ev::parse(toks.get(1)?)?, toks.get(2)?.parse().ok()?)),
        _ => None,
    }
}
