// C13: reconstruction respects the detector's cylindrical and mirror symmetry.
//
// Two kinds of case lines (formats documented in ocaml/run_c13.ml):
//  * `av <recipe> W:.. D:.. P:.. Z:..`  skeleton differential. The event is rebuilt from <recipe>, the real
//    `MainEvent::avalanches()` is run and printed; the numeric kernels (block deconvolution, pad deconvolution,
//    pad centroid) are logged through the cfg hooks as oracle tables, and the extracted Coq skeleton replays
//    block finding / index bookkeeping / column selection / hit extraction / sorting / pairing with them.
//  * `rel-rot <recipe> <k>`, `rel-mir <recipe>`  pairwise relation on the implementation alone: the multiset of
//    avalanches of the rotated (mirrored) event equals the rotated (mirrored) multiset. Cases recognised as
//    members of the two open known-finding classes carry their own tags:
//       `relkf-fullring <recipe> <k>`  rotation of an event in which all 256 wires carry data (F3)
//       `relkf-padtie <recipe>`        mirror of an event with two pad hits of bit-identical amplitude in one
//                                      time bin of one selected column (F6)
//    The tag is decided by the recogniser, not by the generator's intention.
use crate::util::*;
use alpha_g_detector::alpha16::aw_map::TpcWirePosition;
use alpha_g_detector::alpha16::ADC32_RATE;
use alpha_g_physics::{verif, Avalanche, MainEvent};
use std::collections::{BTreeMap, BTreeSet};
use uom::si::angle::radian;
use uom::si::f64::{Angle, Time};
use uom::si::length::meter;
use uom::si::time::second;

const NW: usize = 256;
const NCOLS: usize = 32;
const NROWS: usize = 576;
// induced-signal factors used to synthesise neighbouring wire signals (same values as wires.rs; only the
// shape of the generated events depends on them, no oracle does)
const NEIGHBOR: [f64; 5] = [1.0, -0.1275, -0.0365, -0.012, -0.0042];

// ------------------------------------------------------------------------------------------------
// event recipe
// ------------------------------------------------------------------------------------------------
#[derive(Clone, Debug, PartialEq)]
pub struct Ev {
    n: usize,                              // samples per signal
    runs: Vec<(usize, usize)>,             // present wires: cyclic runs (start, len)
    hits: Vec<(usize, usize, f64)>,        // wire pulses: (wire, t0, amplitude); induce on present neighbours
    pads: Vec<(usize, usize, usize, f64)>, // pad pulses: (column, row, t0, amplitude); a pad is occupied iff listed
}

fn fhex(x: f64) -> String {
    format!("{:016x}", x.to_bits())
}
fn unfhex(s: &str) -> f64 {
    f64::from_bits(u64::from_str_radix(s, 16).unwrap())
}

impl Ev {
    fn present(&self) -> Vec<bool> {
        let mut p = vec![false; NW];
        for &(s, l) in &self.runs {
            for j in 0..l {
                p[(s + j) % NW] = true;
            }
        }
        p
    }
    fn recipe(&self) -> String {
        let j = |v: Vec<String>| if v.is_empty() { "-".to_string() } else { v.join(",") };
        format!(
            "n{}/w{}/h{}/p{}",
            self.n,
            j(self.runs.iter().map(|(s, l)| format!("{s}+{l}")).collect()),
            j(self.hits.iter().map(|(w, t, a)| format!("{w}@{t}*{}", fhex(*a))).collect()),
            j(self.pads.iter().map(|(c, r, t, a)| format!("{c}.{r}@{t}*{}", fhex(*a))).collect())
        )
    }
    fn parse(s: &str) -> Option<Ev> {
        let parts: Vec<&str> = s.split('/').collect();
        if parts.len() != 4 {
            return None;
        }
        let list = |p: &str, pre: char| -> Option<Vec<String>> {
            let body = p.strip_prefix(pre)?;
            Some(if body == "-" { vec![] } else { body.split(',').map(|x| x.to_string()).collect() })
        };
        let n = parts[0].strip_prefix('n')?.parse().ok()?;
        let mut runs = vec![];
        for e in list(parts[1], 'w')? {
            let (a, b) = e.split_once('+')?;
            runs.push((a.parse().ok()?, b.parse().ok()?));
        }
        let mut hits = vec![];
        for e in list(parts[2], 'h')? {
            let (w, rest) = e.split_once('@')?;
            let (t, a) = rest.split_once('*')?;
            hits.push((w.parse().ok()?, t.parse().ok()?, unfhex(a)));
        }
        let mut pads = vec![];
        for e in list(parts[3], 'p')? {
            let (cr, rest) = e.split_once('@')?;
            let (c, r) = cr.split_once('.')?;
            let (t, a) = rest.split_once('*')?;
            pads.push((c.parse().ok()?, r.parse().ok()?, t.parse().ok()?, unfhex(a)));
        }
        Some(Ev { n, runs, hits, pads })
    }
    /// rotation by k pad columns = 8k wires
    fn rotate(&self, k: usize) -> Ev {
        Ev {
            n: self.n,
            runs: self.runs.iter().map(|&(s, l)| ((s + 8 * k) % NW, l)).collect(),
            hits: self.hits.iter().map(|&(w, t, a)| ((w + 8 * k) % NW, t, a)).collect(),
            pads: self.pads.iter().map(|&(c, r, t, a)| ((c + k) % NCOLS, r, t, a)).collect(),
        }
    }
    /// mirror about the mid-plane: row r -> 575 - r
    fn mirror(&self) -> Ev {
        Ev {
            n: self.n,
            runs: self.runs.clone(),
            hits: self.hits.clone(),
            pads: self.pads.iter().map(|&(c, r, t, a)| (c, NROWS - 1 - r, t, a)).collect(),
        }
    }
    /// calibrated signals: every float operation is done in recipe order, so a rotated/mirrored recipe gives
    /// bit-identical signals on the rotated/mirrored channels
    fn signals(&self) -> (Vec<(usize, Vec<f64>)>, Vec<(usize, usize, Vec<f64>)>) {
        let wr = wire_response();
        let pr = pad_response();
        let present = self.present();
        let mut wires = vec![];
        for w in 0..NW {
            if !present[w] {
                continue;
            }
            let mut s = vec![0.0f64; self.n];
            for &(hw, t0, amp) in &self.hits {
                let d = ((w + NW - hw) % NW).min((hw + NW - w) % NW);
                if d < NEIGHBOR.len() {
                    let f = amp * NEIGHBOR[d];
                    for (k, r) in wr.iter().enumerate() {
                        if t0 + k >= self.n {
                            break;
                        }
                        s[t0 + k] += f * r;
                    }
                }
            }
            wires.push((w, s));
        }
        let mut pm: BTreeMap<(usize, usize), Vec<f64>> = BTreeMap::new();
        for &(c, r, t0, amp) in &self.pads {
            let s = pm.entry((c, r)).or_insert_with(|| vec![0.0f64; self.n]);
            for (k, x) in pr.iter().enumerate() {
                if t0 + k >= self.n {
                    break;
                }
                s[t0 + k] += amp * x;
            }
        }
        (wires, pm.into_iter().map(|((c, r), s)| (c, r, s)).collect())
    }
    fn event(&self) -> MainEvent {
        let (w, p) = self.signals();
        MainEvent::verif_from_signals(w, p, 0)
    }
}

fn wire_response() -> &'static Vec<f64> {
    static R: std::sync::OnceLock<Vec<f64>> = std::sync::OnceLock::new();
    R.get_or_init(verif::wire_response)
}
fn pad_response() -> &'static Vec<f64> {
    static R: std::sync::OnceLock<Vec<f64>> = std::sync::OnceLock::new();
    R.get_or_init(verif::pad_response)
}

// ------------------------------------------------------------------------------------------------
// canonical avalanches
// ------------------------------------------------------------------------------------------------
/// (wire index, time bin, z bits, wire amplitude bits, pad amplitude bits); 9999 = not a wire angle / bin time
type Canon = (usize, usize, u64, u64, u64);

fn phi_table() -> &'static Vec<u64> {
    static T: std::sync::OnceLock<Vec<u64>> = std::sync::OnceLock::new();
    T.get_or_init(|| {
        (0..NW)
            .map(|i| Angle::new::<radian>(TpcWirePosition::try_from(i).unwrap().phi()).get::<radian>().to_bits())
            .collect()
    })
}
fn t_table() -> &'static Vec<u64> {
    static T: std::sync::OnceLock<Vec<u64>> = std::sync::OnceLock::new();
    T.get_or_init(|| (0..4096).map(|t| Time::new::<second>(t as f64 / ADC32_RATE).get::<second>().to_bits()).collect())
}
fn canon(a: &Avalanche) -> Canon {
    let pb = a.phi.get::<radian>().to_bits();
    let tb = a.t.get::<second>().to_bits();
    (
        phi_table().iter().position(|&x| x == pb).unwrap_or(9999),
        t_table().iter().position(|&x| x == tb).unwrap_or(9999),
        a.z.get::<meter>().to_bits(),
        a.wire_amplitude.to_bits(),
        a.pad_amplitude.to_bits(),
    )
}
fn canon_str(c: &Canon) -> String {
    format!("{}.{}.{:016x}.{:016x}.{:016x}", c.0, c.1, c.2, c.3, c.4)
}
fn join(v: Vec<String>) -> String {
    if v.is_empty() {
        "-".to_string()
    } else {
        v.join(",")
    }
}

// ------------------------------------------------------------------------------------------------
// kernel tables through the hooks
// ------------------------------------------------------------------------------------------------
fn vec_str(v: &[f64]) -> String {
    let mut s = format!("{}", v.len());
    for (i, x) in v.iter().enumerate() {
        if x.to_bits() != 0 {
            s.push_str(&format!("~{}^{}", i, fhex(*x)));
        }
    }
    s
}

struct Tables {
    ranges: Vec<(usize, usize)>,
    d: Vec<Vec<(usize, Vec<f64>)>>,
    p: Vec<(usize, usize, Vec<f64>)>,
    z: BTreeMap<(usize, u64, u64, u64), u64>,
    /// per selected column, the concatenation of verif::match_column_inputs
    hook_avalanches: Vec<Canon>,
    /// two pad hits of bit-identical amplitude in one time bin of one selected column
    pad_tie: bool,
}

/// centroid z of an isolated three-row pattern, from the implementation (None: not a pad hit)
fn centroid(row: usize, f: f64, m: f64, l: f64) -> Option<u64> {
    let wire_indices = [8usize, 9, 10, 11, 12, 13, 14, 15];
    let mut wi: [Vec<f64>; 8] = Default::default();
    wi[0] = vec![1.0];
    let mut col: Vec<Vec<f64>> = vec![Vec::new(); NROWS];
    col[row - 1] = vec![f];
    col[row] = vec![m];
    col[row + 1] = vec![l];
    let col: [Vec<f64>; NROWS] = col.try_into().unwrap();
    let out = verif::match_column_inputs(wire_indices, &wi, &col);
    out.first().map(|a| a.z.get::<meter>().to_bits())
}

fn tables(ev: &MainEvent) -> Tables {
    let (ws, ps) = ev.verif_signals();
    let ranges = verif::contiguous_ranges(ws);
    let mut d = vec![];
    let mut wire_inputs: Vec<Vec<f64>> = vec![Vec::new(); NW];
    let mut columns = BTreeSet::new();
    for &r in &ranges {
        let out = verif::wire_range_deconvolution(ws, r);
        for (i, input) in &out {
            wire_inputs[*i] = input.clone();
            columns.insert(verif::wire_to_pad_column(*i));
        }
        d.push(out);
    }
    let mut p = vec![];
    let mut pin: BTreeMap<(usize, usize), Vec<f64>> = BTreeMap::new();
    for c in 0..NCOLS {
        for r in 0..NROWS {
            if let Some(s) = ps[c][r].as_ref() {
                let o = verif::pad_deconvolution(s);
                pin.insert((c, r), o.clone());
                p.push((c, r, o));
            }
        }
    }
    // centroid table + tie recogniser, on the selected columns
    let mut z = BTreeMap::new();
    let mut pad_tie = false;
    let empty: Vec<f64> = Vec::new();
    for &c in &columns {
        let rows: BTreeSet<usize> = pin.keys().filter(|k| k.0 == c).map(|k| k.1).collect();
        let tmax = rows.iter().map(|r| pin[&(c, *r)].len()).max().unwrap_or(0);
        let mut amps_at_t: BTreeMap<usize, Vec<u64>> = BTreeMap::new();
        for &row in &rows {
            if row == 0 || row == NROWS - 1 {
                continue;
            }
            let mid = &pin[&(c, row)];
            let fst = pin.get(&(c, row - 1)).unwrap_or(&empty);
            let lst = pin.get(&(c, row + 1)).unwrap_or(&empty);
            for t in 0..tmax {
                let m = mid.get(t).copied().unwrap_or(0.0);
                if !(m > 0.0) {
                    continue;
                }
                let f = fst.get(t).copied().unwrap_or(0.0);
                let l = lst.get(t).copied().unwrap_or(0.0);
                if let Some(zb) = centroid(row, f, m, l) {
                    z.insert((row, f.to_bits(), m.to_bits(), l.to_bits()), zb);
                    let e = amps_at_t.entry(t).or_default();
                    if e.contains(&m.to_bits()) {
                        pad_tie = true;
                    }
                    e.push(m.to_bits());
                }
            }
        }
    }
    // composition of the hooks (must reproduce avalanches(); checked by the caller)
    let mut hook_avalanches = vec![];
    for &c in &columns {
        let mut col: Vec<Vec<f64>> = vec![Vec::new(); NROWS];
        for r in 0..NROWS {
            if let Some(o) = pin.get(&(c, r)) {
                col[r] = o.clone();
            }
        }
        let col: [Vec<f64>; NROWS] = col.try_into().unwrap();
        let wr = verif::pad_column_to_wires(c);
        let idx: [usize; 8] = wr.clone().collect::<Vec<_>>().try_into().unwrap();
        let wi: [Vec<f64>; 8] = wire_inputs[wr].to_vec().try_into().unwrap();
        hook_avalanches.extend(verif::match_column_inputs(idx, &wi, &col).iter().map(canon));
    }
    Tables { ranges, d, p, z, hook_avalanches, pad_tie }
}

fn observe_av(e: &Ev) -> (String, String, bool, bool) {
    // returns (table part of the case line, observation, nontrivial, pad_tie)
    let e2 = e.clone();
    let r = catch(move || {
        let ev = e2.event();
        let av: Vec<Canon> = ev.avalanches().iter().map(canon).collect();
        let tb = tables(&ev);
        (av, tb)
    });
    let Some((av, tb)) = r else {
        return ("W:- D:- P:- Z:-".to_string(), "panic".to_string(), false, false);
    };
    let present = e.present();
    let w = join((0..NW).filter(|i| present[*i]).map(|i| i.to_string()).collect());
    let d = if tb.d.is_empty() {
        "-".to_string()
    } else {
        tb.d.iter()
            .map(|blk| {
                format!(
                    "{}={}",
                    blk.iter().map(|(i, _)| i.to_string()).collect::<Vec<_>>().join(","),
                    blk.iter().map(|(_, v)| vec_str(v)).collect::<Vec<_>>().join("/")
                )
            })
            .collect::<Vec<_>>()
            .join(";")
    };
    let p = if tb.p.is_empty() {
        "-".to_string()
    } else {
        tb.p.iter().map(|(c, r, v)| format!("{c}.{r}={}", vec_str(v))).collect::<Vec<_>>().join(";")
    };
    let z = if tb.z.is_empty() {
        "-".to_string()
    } else {
        tb.z.iter()
            .map(|((r, f, m, l), z)| format!("{r},{f:016x},{m:016x},{l:016x}={z:016x}"))
            .collect::<Vec<_>>()
            .join(";")
    };
    let mut rs = tb.ranges.clone();
    rs.sort();
    let mut obs = format!(
        "ok R={} A={}",
        join(rs.iter().map(|(a, b)| format!("{a}-{b}")).collect()),
        join(av.iter().map(canon_str).collect())
    );
    if tb.hook_avalanches != av {
        obs.push_str(" hooks-differ");
    }
    (format!("W:{w} D:{d} P:{p} Z:{z}"), obs, !av.is_empty(), tb.pad_tie)
}

// ------------------------------------------------------------------------------------------------
// pairwise relations on the implementation
// ------------------------------------------------------------------------------------------------
fn run_event(e: &Ev) -> Option<Vec<Canon>> {
    let e = e.clone();
    catch(move || e.event().avalanches().iter().map(canon).collect())
}

fn rel_rot(e: &Ev, k: usize) -> String {
    let (Some(a), Some(b)) = (run_event(e), run_event(&e.rotate(k))) else {
        return "fails panic".to_string();
    };
    let mut want: Vec<Canon> = a.iter().map(|c| ((c.0 + 8 * k) % NW, c.1, c.2, c.3, c.4)).collect();
    let mut got = b;
    want.sort();
    got.sort();
    if want == got {
        return "holds".to_string();
    }
    let only_want: Vec<&Canon> = want.iter().filter(|c| !got.contains(c)).collect();
    let only_got: Vec<&Canon> = got.iter().filter(|c| !want.contains(c)).collect();
    format!(
        "fails rotation k={k}: {} avalanches expected, {} found; expected-only {} e.g. {}; found-only {} e.g. {}",
        want.len(),
        got.len(),
        only_want.len(),
        only_want.first().map(|c| canon_str(c)).unwrap_or("-".into()),
        only_got.len(),
        only_got.first().map(|c| canon_str(c)).unwrap_or("-".into())
    )
}

fn rel_mir(e: &Ev) -> String {
    let (Some(a), Some(b)) = (run_event(e), run_event(&e.mirror())) else {
        return "fails panic".to_string();
    };
    let mut want = a;
    let mut got = b;
    // one avalanche per (wire, t): pair them by that key
    want.sort_by_key(|c| (c.0, c.1, c.3, c.4));
    got.sort_by_key(|c| (c.0, c.1, c.3, c.4));
    if want.len() != got.len() {
        return format!("fails mirror: {} avalanches expected, {} found", want.len(), got.len());
    }
    for (w, g) in want.iter().zip(&got) {
        let (zw, zg) = (f64::from_bits(w.2), f64::from_bits(g.2));
        let same = w.0 == g.0 && w.1 == g.1 && w.3 == g.3 && w.4 == g.4;
        if !same || !((zw + zg).abs() <= 1e-9) {
            return format!(
                "fails mirror: {} mirrored gives {} (z {:e} -> {:e})",
                canon_str(w),
                canon_str(g),
                zw,
                zg
            );
        }
    }
    "holds".to_string()
}

// ------------------------------------------------------------------------------------------------
// generators
// ------------------------------------------------------------------------------------------------
fn amp(r: &mut Rng, lo: f64, hi: f64) -> f64 {
    lo + (hi - lo) * ((r.next() >> 11) as f64 / (1u64 << 53) as f64)
}

/// add a wire hit with a matching three-row pad pattern one sample earlier
fn add_hit(r: &mut Rng, e: &mut Ev, w: usize, t0: usize, a: f64, row: usize) {
    e.hits.push((w, t0, a));
    let c = verif::wire_to_pad_column(w);
    let pa = amp(r, 0.5, 1.5) * a;
    let (f, l) = (amp(r, 0.2, 0.6), amp(r, 0.2, 0.6));
    e.pads.push((c, row - 1, t0 - 1, pa * f));
    e.pads.push((c, row, t0 - 1, pa));
    e.pads.push((c, row + 1, t0 - 1, pa * l));
}

fn present_list(e: &Ev) -> Vec<usize> {
    let p = e.present();
    (0..NW).filter(|i| p[*i]).collect()
}

/// hits on random present wires, with pads; `same_t` forces several hits into one time bin
fn sprinkle(r: &mut Rng, e: &mut Ev, nhits: usize) {
    let pl = present_list(e);
    if pl.is_empty() {
        return;
    }
    let shared_t = r.range(3, (e.n - 20) as u64) as usize;
    for _ in 0..nhits {
        let w = r.pick(&pl);
        let t0 = if r.chance(1, 2) { shared_t } else { r.range(3, (e.n - 20) as u64) as usize };
        let a = amp(r, 20.0, 300.0);
        let row = r.range(1, (NROWS - 2) as u64) as usize;
        if r.chance(1, 8) {
            e.hits.push((w, t0, a)); // wire hit without pad partner
        } else {
            add_hit(r, e, w, t0, a, row);
        }
    }
    // stray pad activity in a used column
    if r.chance(1, 3) {
        let w = r.pick(&pl);
        let c = verif::wire_to_pad_column(w);
        let row = r.range(1, (NROWS - 2) as u64) as usize;
        let a = amp(r, 20.0, 200.0);
        let t0 = if r.chance(1, 2) { shared_t - 1 } else { r.range(2, (e.n - 20) as u64) as usize };
        e.pads.push((c, row - 1, t0, a * 0.4));
        e.pads.push((c, row, t0, a));
        e.pads.push((c, row + 1, t0, a * 0.5));
    }
    // boundary rows
    if r.chance(1, 6) {
        let w = r.pick(&pl);
        let c = verif::wire_to_pad_column(w);
        let row = if r.chance(1, 2) { 1 } else { NROWS - 2 };
        let a = amp(r, 20.0, 200.0);
        e.pads.push((c, row - 1, shared_t - 1, a * 0.4));
        e.pads.push((c, row, shared_t - 1, a));
        e.pads.push((c, row + 1, shared_t - 1, a * 0.5));
    }
}

fn new_ev(r: &mut Rng) -> Ev {
    Ev { n: r.range(40, 96) as usize, runs: vec![], hits: vec![], pads: vec![] }
}

fn ev_random(r: &mut Rng) -> Ev {
    let mut e = new_ev(r);
    let nclusters = r.range(1, 4);
    let mut pos = r.below(NW as u64) as usize;
    for _ in 0..nclusters {
        let len = r.range(1, 14) as usize;
        e.runs.push((pos % NW, len));
        pos += len + r.range(1, 60) as usize;
    }
    let nh = r.range(1, 5) as usize;
    sprinkle(r, &mut e, nh);
    e
}

/// one block straddling the 255/0 seam: `a` wires before the seam, `b` after
fn ev_seam(r: &mut Rng, a: usize, b: usize, others: bool) -> Ev {
    let mut e = new_ev(r);
    e.runs.push((NW - a, a + b));
    if others {
        // further blocks in the middle: exercises swap_remove(0) moving the last middle block to the front
        let mut pos = b + r.range(1, 20) as usize;
        for _ in 0..r.range(1, 3) {
            let len = r.range(1, 10) as usize;
            if pos + len + 1 >= NW - a {
                break;
            }
            e.runs.push((pos, len));
            pos += len + r.range(1, 40) as usize;
        }
    }
    // hits close to the seam
    let t = r.range(3, (e.n - 20) as u64) as usize;
    let w1 = (NW - 1 - r.below(a.min(3) as u64) as usize) % NW;
    let w2 = r.below(b.min(3) as u64) as usize;
    let (a1, a2) = (amp(r, 50.0, 200.0), amp(r, 50.0, 200.0));
    let (r1, r2) = (r.range(1, 280) as usize, r.range(290, 574) as usize);
    add_hit(r, &mut e, w1, t, a1, r1);
    let t2 = if r.chance(1, 2) { t } else { t + 2 };
    add_hit(r, &mut e, w2, t2, a2, r2);
    let extra = r.below(3) as usize;
    sprinkle(r, &mut e, extra);
    e
}

/// blocks touching only one side of the seam, single wires, nearly full rings
fn ev_edge(r: &mut Rng, which: u64) -> Ev {
    let mut e = new_ev(r);
    match which % 8 {
        0 => e.runs.push((0, r.range(1, 12) as usize)),        // starts at wire 0, wire 255 absent
        1 => {
            let l = r.range(1, 12) as usize;
            e.runs.push((NW - l, l)) // ends at wire 255, wire 0 absent
        }
        2 => {
            // both, separated by one absent wire at 0 or 255
            e.runs.push((1, r.range(1, 9) as usize));
            e.runs.push((NW - 6, 6));
        }
        3 => e.runs.push((r.below(NW as u64) as usize, 1)),   // single wire
        4 => e.runs.push((r.below(NW as u64) as usize, 255)), // all but one wire
        5 => {
            // every second wire
            for i in 0..12 {
                e.runs.push(((250 + 2 * i) % NW, 1));
            }
        }
        6 => {} // no wires at all
        _ => {
            e.runs.push((0, 1));
            e.runs.push((NW - 1, 1)); // minimal seam block
        }
    }
    let nh = r.range(1, 3) as usize;
    sprinkle(r, &mut e, nh);
    if which % 8 == 6 {
        // pads without wires
        e.pads.push((3, 100, 10, 80.0));
    }
    if r.chance(1, 8) {
        e.pads.clear(); // wires without pads
    }
    e
}

/// all 256 wires carry data (class full_ring_256)
fn ev_full(r: &mut Rng, near_seam: bool) -> Ev {
    let mut e = new_ev(r);
    e.runs.push((0, NW));
    let t = r.range(3, (e.n - 20) as u64) as usize;
    if near_seam {
        let (a1, a2) = (amp(r, 50.0, 200.0), amp(r, 50.0, 200.0));
        add_hit(r, &mut e, 255, t, a1, 100);
        add_hit(r, &mut e, 0, t + 3, a2, 300);
    } else {
        let w = r.range(20, 230) as usize;
        let a1 = amp(r, 50.0, 200.0);
        add_hit(r, &mut e, w, t, a1, 100);
    }
    let extra = r.below(3) as usize;
    sprinkle(r, &mut e, extra);
    e
}

/// two pad hits of bit-identical amplitude in one time bin of one column (class pad_amplitude_tie);
/// `doc` = the recipe of DESIGN.md A.12 (F6)
fn ev_tie(r: &mut Rng, doc: bool) -> Ev {
    let mut e = new_ev(r);
    if doc {
        e.n = 80;
        e.runs.push((94, 15));
        e.hits.push((100, 20, 100.0));
        e.hits.push((102, 20, 60.0));
        for base in [100usize, 300] {
            e.pads.push((11, base - 1, 19, 30.0));
            e.pads.push((11, base, 19, 80.0));
            e.pads.push((11, base + 1, 19, 40.0));
        }
        return e;
    }
    let c = r.below(NCOLS as u64) as usize;
    let first = verif::pad_column_to_wires(c).start;
    let start = (first + NW - r.range(0, 5) as usize) % NW;
    e.runs.push((start, 8 + r.range(5, 10) as usize));
    let t = r.range(3, (e.n - 20) as u64) as usize;
    let w1 = first + r.below(4) as usize;
    let w2 = first + 4 + r.below(4) as usize;
    e.hits.push((w1, t, amp(r, 80.0, 120.0)));
    e.hits.push((w2, t, amp(r, 40.0, 70.0)));
    let a = amp(r, 40.0, 120.0);
    let (f, l) = (a * amp(r, 0.2, 0.6), a * amp(r, 0.2, 0.6));
    let r1 = r.range(1, 280) as usize;
    let r2 = r.range(290, 574) as usize;
    for base in [r1, r2] {
        e.pads.push((c, base - 1, t - 1, f));
        e.pads.push((c, base, t - 1, a));
        e.pads.push((c, base + 1, t - 1, l));
    }
    e
}

// ------------------------------------------------------------------------------------------------
// emission
// ------------------------------------------------------------------------------------------------
fn emit_av(s: &mut Sink, label: &str, e: &Ev) -> bool {
    let (tabs, obs, nontrivial, tie) = observe_av(e);
    s.put(&format!("av {} {}", e.recipe(), tabs), &obs, label, nontrivial);
    tie
}

fn emit_rot(s: &mut Sink, label: &str, e: &Ev, k: usize) {
    let full = e.present().iter().all(|x| *x);
    let tag = if full { "relkf-fullring" } else { "rel-rot" };
    let o = rel_rot(e, k);
    let lab = if full { "rot-fullring".to_string() } else { format!("rot-{label}") };
    s.put(&format!("{tag} {} {k}", e.recipe()), &o, &lab, true);
}

fn emit_mir(s: &mut Sink, label: &str, e: &Ev, tie: bool) {
    let tag = if tie { "relkf-padtie" } else { "rel-mir" };
    let o = rel_mir(e);
    let lab = if tie { "mir-padtie".to_string() } else { format!("mir-{label}") };
    s.put(&format!("{tag} {}", e.recipe()), &o, &lab, true);
}

fn emit_all(s: &mut Sink, r: &mut Rng, label: &str, e: &Ev, nrot: usize) {
    let tie = emit_av(s, label, e);
    let ks: Vec<usize> = if nrot >= 31 {
        (1..32).collect()
    } else {
        let mut v = vec![1usize, 31];
        while v.len() < nrot {
            let k = r.range(2, 30) as usize;
            if !v.contains(&k) {
                v.push(k);
            }
        }
        v.truncate(nrot);
        v
    };
    for k in ks {
        emit_rot(s, label, e, k);
    }
    emit_mir(s, label, e, tie);
}

pub fn run(tier: &str, seed: u64, s: &mut Sink) {
    let mut r = Rng::new(seed ^ 0xC13);
    let thorough = tier == "thorough";
    let known = std::env::var("VERIF_C13_SKIP_KNOWN").is_err();
    let nrot = if thorough { 31 } else { 4 };
    // the two documented witnesses first
    if known {
        let e = ev_tie(&mut r, true);
        emit_all(s, &mut r, "padtie-doc", &e, nrot);
    }
    let n_random = if thorough { 300 } else { 220 };
    for _ in 0..n_random {
        let e = ev_random(&mut r);
        emit_all(s, &mut r, "random", &e, nrot);
    }
    // seam blocks: every length at the seam (thorough), a sample (quick)
    if thorough {
        for len in 2..=24usize {
            for a in 1..len {
                let e = ev_seam(&mut r, a, len - a, (a + len) % 3 == 0);
                emit_all(s, &mut r, "seam", &e, 3);
            }
        }
        for _ in 0..60 {
            let a = r.range(1, 40) as usize;
            let b = r.range(1, 40) as usize;
            let e = ev_seam(&mut r, a, b, true);
            emit_all(s, &mut r, "seam-merge", &e, nrot);
        }
    } else {
        for _ in 0..110 {
            let a = r.range(1, 12) as usize;
            let b = r.range(1, 12) as usize;
            let others = r.chance(1, 2);
            let e = ev_seam(&mut r, a, b, others);
            emit_all(s, &mut r, if others { "seam-merge" } else { "seam" }, &e, nrot);
        }
    }
    let n_edge = if thorough { 160 } else { 64 };
    for i in 0..n_edge {
        let e = ev_edge(&mut r, i);
        emit_all(s, &mut r, "edge", &e, if thorough { 8 } else { 3 });
    }
    // known-finding classes (skeleton differential always; the relations under their own tags)
    let n_full = if thorough { 12 } else { 4 };
    for i in 0..n_full {
        let e = ev_full(&mut r, i % 2 == 0);
        if known {
            emit_all(s, &mut r, "fullring", &e, if thorough { 8 } else { 3 });
        } else {
            emit_av(s, "fullring", &e);
            emit_mir(s, "fullring", &e, false);
        }
    }
    let n_tie = if thorough { 40 } else { 10 };
    for _ in 0..n_tie {
        let e = ev_tie(&mut r, false);
        if known {
            emit_all(s, &mut r, "padtie", &e, 3);
        } else {
            emit_av(s, "padtie", &e);
            emit_rot(s, "padtie", &e, 1 + r.below(31) as usize);
        }
    }
}

/// implementation observation for a case line of this module (None: not one of mine)
pub fn observe_line(line: &str) -> Option<String> {
    let toks: Vec<&str> = line.split(' ').collect();
    match toks.first().copied() {
        Some("av") => {
            let e = Ev::parse(toks.get(1)?)?;
            Some(observe_av(&e).1)
        }
        Some("rel-rot") | Some("relkf-fullring") => {
            let e = Ev::parse(toks.get(1)?)?;
            let k: usize = toks.get(2)?.parse().ok()?;
            Some(rel_rot(&e, k))
        }
        Some("rel-mir") | Some("relkf-padtie") => {
            let e = Ev::parse(toks.get(1)?)?;
            Some(rel_mir(&e))
        }
        _ => None,
    }
}
