// C09: every main event yields a result - panic search on the real code.
//   tot09 <run> <namehex>:<datahex>* | <view>
// observation: `ok` (event built; timestamp(), avalanches(), vertex() returned), `err` (build
// rejected), `panic` (anything unwound).  The model (coq/Event/Event.v through run_c10.ml) predicts
// the class of try_from_banks and, by C09_build_total, never `panic`; a panic in avalanches() or
// vertex() therefore also shows as a difference.
use crate::c10::*;
use crate::c11::{geometry, sim_event, Geometry};
use crate::util::*;
use alpha_g_detector::alpha16::AdcPacket;
use alpha_g_detector::padwing::{self, Chunk, PwbPacket};

pub fn observe_total(run: u32, banks: &[Bank]) -> String {
    match build_real(run, banks) {
        None => "panic".into(),
        Some(Err(_)) => "err".into(),
        Some(Ok(ev)) => {
            let r = catch(move || {
                let _ = ev.timestamp();
                let a = ev.avalanches();
                let v = ev.vertex();
                (a.len(), v.is_some())
            });
            if r.is_some() { "ok".into() } else { "panic".into() }
        }
    }
}

pub fn observe_line(line: &str) -> Option<String> {
    let toks: Vec<&str> = line.split(' ').collect();
    if toks.first() != Some(&"tot09") {
        return None;
    }
    let (run, banks) = parse_raw(&toks[1..])?;
    Some(observe_total(run, &banks))
}

fn emit_tot(s: &mut Sink, label: &str, run: u32, banks: &[Bank]) {
    let line = case_line("tot09", run, banks);
    let obs = observe_total(run, banks);
    s.put(&line, &obs, label, obs != "err" || banks.len() > 1);
}

const EXT: [i16; 8] = [i16::MIN, i16::MAX, i16::MIN + 1, i16::MAX - 1, 0, -1, 1, 2047];

/// overwrite samples of a waveform with extremes, in one of several patterns
fn extremes(r: &mut Rng, wf: &mut [i16], from: usize) {
    let style = r.below(7);
    let n = wf.len();
    for i in 0..n {
        let hit = match style {
            0 => true,
            1 => i >= from,
            2 => i >= from && r.chance(1, 4),
            3 => i == from || i + 1 == n,
            4 => i % 2 == 0,
            5 => i < from,
            _ => r.chance(1, 16),
        };
        if hit {
            wf[i] = match style {
                0 | 1 => {
                    if r.chance(1, 2) {
                        i16::MIN
                    } else {
                        i16::MAX
                    }
                }
                4 => {
                    if (i / 2) % 2 == 0 {
                        i16::MIN
                    } else {
                        i16::MAX
                    }
                }
                _ => r.pick(&EXT),
            };
        }
    }
    if style == 0 && r.chance(1, 2) {
        let v = r.pick(&[i16::MIN, i16::MAX]);
        wf.iter_mut().for_each(|x| *x = v);
    }
}

/// decode a wire bank, change it, encode it again with a valid baseline / footer
fn reencode_wire(w: &World, r: &mut Rng, b: &Bank, delay: usize) -> Option<Bank> {
    let p = AdcPacket::try_from(&b.data[..]).ok()?;
    let board = p.board_id()?;
    let mac = board.mac_address();
    let chan_byte = b.data[5];
    let mut wf = p.waveform().to_vec();
    let _ = w;
    let data = match r.below(14) {
        0..=8 => {
            extremes(r, &mut wf, delay);
            adc_long(mac, chan_byte, &wf, None, None)
        }
        9 => {
            // requested_samples at an extreme (the packet then usually no longer decodes)
            let req = r.pick(&[0u16, 1, 2, 511, 65535, (wf.len() + 1) as u16, (wf.len() + 3) as u16]);
            adc_long(mac, chan_byte, &wf, None, Some(req))
        }
        10 => {
            // truncated to the shortest legal waveforms / around the delay
            let n = r.pick(&[64usize, 65, delay.max(64) - 1, delay.max(64), delay.max(64) + 1]).min(wf.len());
            wf.truncate(n.max(64));
            extremes(r, &mut wf, delay);
            adc_long(mac, chan_byte, &wf, None, None)
        }
        11 => {
            // data suppression on, keep_last at its bounds
            let n = wf.len();
            let max_kl = ((n + 1) / 2 + 1) as u16;
            let kl = r.pick(&[34u16, max_kl, max_kl.saturating_sub(1), 0, 33, 0xFFF]);
            { let rq = r.pick(&[(n + 2) as u16, 65535, 0]); adc_long(mac, chan_byte, &wf, Some(kl), Some(rq)) }
        }
        12 => { let rq = r.pick(&[0u16, 1, 511, 65535]); let bl = r.pick(&EXT); adc_short(chan_byte, rq, bl) }
        _ => {
            // longest waveform the 16-bit requested_samples allows for the bank (kept moderate)
            let mut big = vec![0i16; r.pick(&[509usize, 1000, 4000])];
            extremes(r, &mut big, delay);
            adc_long(mac, chan_byte, &big, None, None)
        }
    };
    Some(Bank { name: b.name.clone(), data })
}

/// decode the PWB packet made of the banks at `idx`, change it, encode it again (valid CRCs)
fn reencode_group(w: &World, r: &mut Rng, banks: &[Bank], idx: &[usize], delay: usize) -> Option<Vec<Bank>> {
    let chunks: Vec<Chunk> = idx.iter().map(|&i| Chunk::try_from(&banks[i].data[..]).ok()).collect::<Option<_>>()?;
    let dev = chunks[0].board_id().device_id();
    let hdr_chip = match chunks[0].after_id() {
        padwing::AfterId::A => 0u8,
        padwing::AfterId::B => 1,
        padwing::AfterId::C => 2,
        padwing::AfterId::D => 3,
    };
    let p = PwbPacket::try_from(chunks).ok()?;
    let mac = p.board_id().mac_address();
    let mut nsamp = p.requested_samples();
    // readout indices of the channels sent
    let mut chans: Vec<(u16, Vec<i16>)> = Vec::new();
    for ro in 1..=79u16 {
        let ch = padwing::ChannelId::try_from(ro).ok()?;
        if let Some(wf) = p.waveform_at(ch) {
            chans.push((ro, wf.to_vec()));
        }
    }
    let _ = w;
    match r.below(8) {
        0..=3 => {
            for c in chans.iter_mut() {
                if r.chance(2, 3) {
                    extremes(r, &mut c.1, delay);
                }
            }
        }
        4 => {
            // all 79 channels
            nsamp = r.pick(&[0usize, 1, delay + 1, delay + 20, 511]);
            chans = (1..=79u16)
                .map(|ro| {
                    let mut v = vec![0i16; nsamp];
                    extremes(r, &mut v, delay);
                    (ro, v)
                })
                .collect();
        }
        5 => {
            // requested_samples 0 / 1 / 511 / around the delay
            nsamp = r.pick(&[0usize, 1, delay.saturating_sub(1), delay, delay + 1, 511]);
            for c in chans.iter_mut() {
                c.1 = vec![0i16; nsamp];
                extremes(r, &mut c.1, delay);
            }
        }
        6 => {
            // only reset / FPN channels, or a single channel
            chans = [1u16, 2, 3, 16, 29, 54, 67]
                .iter()
                .map(|&ro| {
                    let mut v = vec![0i16; nsamp];
                    extremes(r, &mut v, delay);
                    (ro, v)
                })
                .collect();
        }
        _ => {
            chans.truncate(1);
            for c in chans.iter_mut() {
                extremes(r, &mut c.1, 0);
            }
        }
    }
    let mut payload = pwb_payload(mac, b'A' + hdr_chip, nsamp as u16, &chans);
    if r.chance(1, 6) {
        // header fields at their extremes: trigger delay, timestamp, last SCA cell, counters
        payload[10] = 0xFF;
        payload[11] = 0xFF;
        for k in 12..18 {
            payload[k] = 0xFF;
        }
        payload[20] = 0xFF;
        payload[21] = 0x01;
        for k in 44..52 {
            payload[k] = 0xFF;
        }
    }
    let n = r.pick(&[1usize, 2, 3, 7]);
    let name = banks[idx[0]].name.clone();
    Some(split_chunks(dev, hdr_chip, &payload, n).into_iter().map(|d| Bank { name: name.clone(), data: d }).collect())
}

/// re-encode some packets of an event at extremes
fn extreme_event(w: &World, r: &mut Rng, ev: &Ev) -> Ev {
    let (wd, pd) = if ev.run == u32::MAX { (100usize, 100usize) } else { (129, 115) };
    let mut banks = Vec::new();
    let mut kinds = Vec::new();
    let mut done_groups: Vec<(usize, u8)> = Vec::new();
    let heavy = r.chance(1, 3);
    for i in 0..ev.banks.len() {
        match &ev.kinds[i] {
            Kind::Wire { .. } => {
                let change = if heavy { r.chance(3, 4) } else { r.chance(1, 6) };
                let nb = if change { reencode_wire(w, r, &ev.banks[i], wd) } else { None };
                banks.push(nb.unwrap_or_else(|| ev.banks[i].clone()));
                kinds.push(ev.kinds[i].clone());
            }
            Kind::Pad { board, chip } => {
                let key = (*board, *chip);
                if done_groups.contains(&key) {
                    continue;
                }
                done_groups.push(key);
                let idx: Vec<usize> = (0..ev.banks.len())
                    .filter(|&j| matches!(&ev.kinds[j], Kind::Pad { board: b2, chip: c2 } if (*b2, *c2) == key))
                    .collect();
                let change = if heavy { r.chance(3, 4) } else { r.chance(1, 4) };
                let nb = if change { reencode_group(w, r, &ev.banks, &idx, pd) } else { None };
                match nb {
                    Some(v) => {
                        for b in v {
                            banks.push(b);
                            kinds.push(ev.kinds[i].clone());
                        }
                    }
                    None => {
                        for j in idx {
                            banks.push(ev.banks[j].clone());
                            kinds.push(ev.kinds[j].clone());
                        }
                    }
                }
            }
            Kind::Trg => {
                let b = if r.chance(1, 3) {
                    let m = u32::MAX;
                    let t = match r.below(4) {
                        0 => trg(m, m, m, m, m),
                        1 => trg(0, 0, 0, 0, 0),
                        2 => trg(m, 0, m, m / 2, 1),
                        _ => trg(1, 0x0FFF_FFFF, 0x1FFF_FFFF, 0x1000_0000, 0x0FFF_FFFF),
                    };
                    Bank { name: "ATAT".into(), data: t }
                } else {
                    ev.banks[i].clone()
                };
                banks.push(b);
                kinds.push(Kind::Trg);
            }
            Kind::Other => {
                banks.push(ev.banks[i].clone());
                kinds.push(Kind::Other);
            }
        }
    }
    Ev { run: ev.run, banks, kinds }
}

pub fn run(tier: &str, seed: u64, s: &mut Sink) {
    let w = world();
    let mut r = Rng::new(seed ^ 0xC09);
    let thorough = tier == "thorough";
    let g_sim: Geometry = geometry(&w, u32::MAX);
    let g_real: Geometry = geometry(&w, 11192);
    // 1. realistic simulated-like events, as they are and re-encoded at extremes
    let n_sim = if thorough { 300 } else { 24 };
    for i in 0..n_sim {
        let (run, g) = if i % 3 == 2 { (11192u32, &g_real) } else { (u32::MAX, &g_sim) };
        let nt = if i % 2 == 0 { 11 + (i % 4) } else { 1 + (i % 4) };
        let noise = r.pick(&[0i64, 3, 30]);
        let ev = sim_event(&w, g, &mut r, run, nt, noise);
        emit_tot(s, "simulated-tracks", ev.run, &ev.banks);
        for _ in 0..5 {
            let x = extreme_event(&w, &mut r, &ev);
            emit_tot(s, "simulated-tracks-reencoded-at-extremes", x.run, &x.banks);
        }
        // duplicated / missing / foreign banks on the simulated event
        for _ in 0..2 {
            let mut x = ev.clone();
            let which = r.below(N_PERTURB);
            if let Some(label) = perturb(&w, &mut r, &mut x, which) {
                emit_tot(s, &format!("simulated-tracks+{}", label), x.run, &x.banks);
            }
        }
    }
    // 2. small events re-encoded at extremes (cheap: many)
    let n_small = if thorough { 12000 } else { 1500 };
    for i in 0..n_small {
        let ev = if i % 5 == 4 {
            let run = pick_run(&mut r);
            base_event(&w, &mut r, run, false)
        } else {
            clean_base(&w, &mut r, None)
        };
        let x = extreme_event(&w, &mut r, &ev);
        emit_tot(s, "event-reencoded-at-extremes", x.run, &x.banks);
    }
    // 3. the cases in which a single check decides, and the sweeps with all 79 channels
    {
        let mut tmp = Vec::new();
        // reuse the C10 generators through a scratch sink: take their bank lists from the case lines
        let dir = std::env::temp_dir().join(format!("c09-scratch-{}-{}", std::process::id(), seed));
        std::fs::create_dir_all(&dir).unwrap();
        {
            let mut scratch = Sink::new(dir.to_str().unwrap());
            decisive(&w, &mut r, &mut scratch, if thorough { 12 } else { 3 });
            scratch.finish();
        }
        if let Ok(text) = std::fs::read_to_string(dir.join("cases.txt")) {
            for line in text.lines() {
                let toks: Vec<&str> = line.split(' ').collect();
                if let Some((run, banks)) = parse_raw(&toks[1..]) {
                    tmp.push((run, banks));
                }
            }
        }
        let _ = std::fs::remove_dir_all(&dir);
        for (run, banks) in tmp {
            emit_tot(s, "single-check-decides", run, &banks);
        }
    }
    for &run in &[u32::MAX, 11192] {
        for b in 0..w.pwb.len() {
            if !thorough && !r.chance(1, 10) {
                continue;
            }
            let chip = r.below(4) as u8;
            let nsamp = r.pick(&[0u16, 1, 101, 116, 511]);
            let mut banks = board_sweep_pads(&w, &mut r, b, chip, nsamp);
            banks.pop(); // one TRG bank only (the wire sweep brings its own)
            // the sweep's samples cover the whole i16 range
            let wb = r.below(8) as usize;
            banks.extend(board_sweep_wires(&w, &mut r, run, wb));
            emit_tot(s, "all-79-channels", run, &banks);
        }
    }
    // 4. random names and bytes
    let n_rand = if thorough { 20000 } else { 2000 };
    for _ in 0..n_rand {
        let k = r.below(5) as usize;
        let banks: Vec<Bank> = (0..k)
            .map(|_| {
                let name: String = match r.below(6) {
                    0 => wire_name(&w.a16[r.below(8) as usize].name, r.below(32) as u8),
                    1 => format!("PC{}", w.pwb[r.below(w.pwb.len() as u64) as usize].name),
                    2 => "ATAT".to_string(),
                    3 => (0..r.below(7)).map(|_| (r.range(32, 126) as u8) as char).collect(),
                    4 => (0..r.below(4)).map(|_| char::from_u32(r.pick(&[0xe9u32, 0x4e2d, 0x1F600, 0x41, 0x30])).unwrap()).collect(),
                    _ => other_bank(&w, &mut r).name,
                };
                let n = r.pick(&[0usize, 1, 15, 16, 17, 27, 28, 35, 36, 79, 80, 81, 164, 700]);
                Bank { name, data: r.bytes(n) }
            })
            .collect();
        emit_tot(s, "random-names-and-bytes", pick_run(&mut r), &banks);
    }
}
