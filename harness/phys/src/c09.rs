// C09: not built yet (stub so that main.rs is already wired; replace the body, keep the two signatures).
use crate::util::Sink;

pub fn run(_tier: &str, _seed: u64, _s: &mut Sink) {}

/// implementation observation for a case line of this module (None: not one of mine)
pub fn observe_line(_line: &str) -> Option<String> {
    None
}
