// C10: event assembly. Real banks (valid CRCs/baselines) are built from the documented layouts,
// the REAL MainEvent::try_from_banks runs on them, and the case line carries, after `|`, the decoded
// view of every bank obtained through the detector crate's public API plus the map / calibration /
// reassembly oracles, which is what the Coq model (coq/Event/Event.v) consumes.
//   evt10 <run> <namehex>:<datahex>* | <view>     observation: outcome, occupied slots, timestamp
// Shared with c09.rs and c11.rs (builders, view, observation).
use crate::util::*;
use alpha_g_detector::alpha16::aw_map::TpcWirePosition;
use alpha_g_detector::alpha16::{self, Adc16ChannelId, Adc32ChannelId, AdcPacket};
use alpha_g_detector::midas::{Alpha16BankName, MainEventBankName};
use alpha_g_detector::padwing::map::TpcPadPosition;
use alpha_g_detector::padwing::{self, AfterId, Chunk, FpnChannelId, PadChannelId, PwbPacket, ResetChannelId};
use alpha_g_detector::trigger::TrgPacket;
use alpha_g_physics::MainEvent;
use std::collections::BTreeSet;

// ---------------------------------------------------------------------------------------------
// boards known to the detector crate (discovered through its public API)
// ---------------------------------------------------------------------------------------------
#[derive(Clone)]
pub struct A16Board {
    pub name: String,
    pub mac: [u8; 6],
}
#[derive(Clone)]
pub struct PwbBoard {
    pub name: String,
    pub mac: [u8; 6],
    pub dev: u32,
}
pub struct World {
    pub a16: Vec<A16Board>,
    pub pwb: Vec<PwbBoard>,
}
pub fn world() -> World {
    let mut a16 = Vec::new();
    let mut pwb = Vec::new();
    for i in 0..100u32 {
        let n = format!("{:02}", i);
        if let Ok(b) = alpha16::BoardId::try_from(&n[..]) {
            a16.push(A16Board { name: n.clone(), mac: b.mac_address() });
        }
        if let Ok(b) = padwing::BoardId::try_from(&n[..]) {
            pwb.push(PwbBoard { name: n.clone(), mac: b.mac_address(), dev: b.device_id() });
        }
    }
    World { a16, pwb }
}

// ---------------------------------------------------------------------------------------------
// packet builders (documented layouts)
// ---------------------------------------------------------------------------------------------
#[derive(Clone, Debug)]
pub struct Bank {
    pub name: String,
    pub data: Vec<u8>,
}

/// floor of the mean of the first 64 samples (the suppression baseline the decoder recomputes)
pub fn adc_baseline(samples: &[i16]) -> i16 {
    let sum: i32 = samples.iter().take(64).map(|&x| x as i32).sum();
    sum.div_euclid(64) as i16
}

/// ADC v3 long packet. `supp = Some(keep_last)`: suppression enabled, keep bit set.
pub fn adc_long(mac: [u8; 6], chan_byte: u8, samples: &[i16], supp: Option<u16>, req: Option<u16>) -> Vec<u8> {
    let req = req.unwrap_or((samples.len() + 2) as u16);
    let mut b = vec![1u8, 3, 0, 4, 5, chan_byte];
    b.extend_from_slice(&req.to_be_bytes());
    b.extend_from_slice(&[0, 0, 0, 7, 0, 0]);
    b.extend_from_slice(&mac);
    b.extend_from_slice(&[0; 12]);
    for s in samples {
        b.extend_from_slice(&s.to_be_bytes());
    }
    let footer: u16 = match supp {
        Some(kl) => (kl & 0xFFF) | (1 << 12) | (1 << 13),
        None => 0,
    };
    b.extend_from_slice(&footer.to_be_bytes());
    b.extend_from_slice(&adc_baseline(samples).to_be_bytes());
    b
}
/// ADC v3 16-byte packet of a suppressed channel (no MAC, no waveform).
pub fn adc_short(chan_byte: u8, req: u16, baseline: i16) -> Vec<u8> {
    let mut b = vec![1u8, 3, 0, 4, 5, chan_byte];
    b.extend_from_slice(&req.to_be_bytes());
    b.extend_from_slice(&[0, 0, 0, 7]);
    b.extend_from_slice(&[0x20, 0]);
    b.extend_from_slice(&baseline.to_be_bytes());
    b
}
pub fn trg(ts: u32, out: u32, inp: u32, drift: u32, sd: u32) -> Vec<u8> {
    let w: [u32; 20] = [
        255,
        0x8000_0000 | (out & 0x0FFF_FFFF),
        ts,
        out,
        inp,
        0,
        5,
        6,
        7,
        0x8000_0008,
        drift,
        sd,
        0,
        (10 << 16) | 9,
        11,
        0,
        12,
        13,
        14,
        0xE000_0000 | (out & 0x0FFF_FFFF),
    ];
    w.iter().flat_map(|x| x.to_le_bytes()).collect()
}
pub fn chunk(device_id: u32, after: u8, flags: u8, id: u16, payload: &[u8]) -> Vec<u8> {
    let mut b = Vec::new();
    b.extend_from_slice(&device_id.to_le_bytes());
    b.extend_from_slice(&1u32.to_le_bytes());
    b.extend_from_slice(&1u16.to_le_bytes());
    b.push(after);
    b.push(flags);
    b.extend_from_slice(&id.to_le_bytes());
    b.extend_from_slice(&(payload.len() as u16).to_le_bytes());
    let c = !crc32c::crc32c(&b[..16]);
    b.extend_from_slice(&c.to_le_bytes());
    b.extend_from_slice(payload);
    while b.len() % 4 != 0 {
        b.push(0);
    }
    let c = !crc32c::crc32c(&b[20..]);
    b.extend_from_slice(&c.to_le_bytes());
    b
}
/// PWB v2 payload; `chans` = (readout index 1..=79, samples of length nsamp), ascending readout index.
pub fn pwb_payload(mac: [u8; 6], chip_letter: u8, nsamp: u16, chans: &[(u16, Vec<i16>)]) -> Vec<u8> {
    let mut b = vec![2u8, chip_letter, 0, 0];
    b.extend_from_slice(&mac);
    b.extend_from_slice(&[0, 0]);
    b.extend_from_slice(&[1, 0, 0, 0, 0, 0, 0, 0]);
    b.extend_from_slice(&[0, 0]);
    b.extend_from_slice(&nsamp.to_le_bytes());
    let mut mask: u128 = 0;
    for (c, _) in chans {
        mask |= 1u128 << (c - 1);
    }
    b.extend_from_slice(&mask.to_le_bytes()[..10]);
    b.extend_from_slice(&mask.to_le_bytes()[..10]);
    b.extend_from_slice(&[0; 8]);
    for (c, w) in chans {
        b.extend_from_slice(&c.to_le_bytes());
        b.extend_from_slice(&nsamp.to_le_bytes());
        for s in w {
            b.extend_from_slice(&s.to_le_bytes());
        }
        if nsamp % 2 == 1 {
            b.extend_from_slice(&[0, 0]);
        }
    }
    b.extend_from_slice(&[0xCC; 4]);
    b
}
/// split a payload into `n` chunks (all but the last of equal length), ids 0.., last one flagged
pub fn split_chunks(dev: u32, after: u8, payload: &[u8], n: usize) -> Vec<Vec<u8>> {
    let n = n.max(1).min(payload.len().max(1));
    let per = (payload.len() + n - 1) / n;
    let per = per.max(1);
    let parts: Vec<&[u8]> = payload.chunks(per).collect();
    let k = parts.len();
    parts
        .iter()
        .enumerate()
        .map(|(i, p)| chunk(dev, after, (i + 1 == k) as u8, i as u16, p))
        .collect()
}
pub fn wire_name(board: &str, chan: u8) -> String {
    let d = std::char::from_digit(chan as u32, 32).unwrap().to_ascii_uppercase();
    format!("C{}{}", board, d)
}

// ---------------------------------------------------------------------------------------------
// identifiers as numbers (the private integer inside the id types is recovered through PartialEq)
// ---------------------------------------------------------------------------------------------
fn a32_num(c: Adc32ChannelId) -> u8 {
    (0..32u8).find(|&i| Adc32ChannelId::try_from(i).unwrap() == c).unwrap()
}
fn a16_num(c: Adc16ChannelId) -> u8 {
    (0..16u8).find(|&i| Adc16ChannelId::try_from(i).unwrap() == c).unwrap()
}
fn after_num(a: AfterId) -> u8 {
    match a {
        AfterId::A => 0,
        AfterId::B => 1,
        AfterId::C => 2,
        AfterId::D => 3,
    }
}
fn pad_num(c: PadChannelId) -> u16 {
    (1..=72u16).find(|&i| PadChannelId::try_from(i).unwrap() == c).unwrap()
}
fn fpn_num(c: FpnChannelId) -> u16 {
    (1..=4u16).find(|&i| FpnChannelId::try_from(i).unwrap() == c).unwrap()
}
fn reset_num(c: ResetChannelId) -> u16 {
    (1..=3u16).find(|&i| ResetChannelId::try_from(i).unwrap() == c).unwrap()
}
fn join_i16(w: &[i16]) -> String {
    if w.is_empty() {
        "-".to_string()
    } else {
        w.iter().map(|x| x.to_string()).collect::<Vec<_>>().join(",")
    }
}
fn cal_str(r: Result<(i16, f64, usize), String>) -> String {
    match r {
        Ok((bl, g, dl)) => format!("{}:{:016x}:{}", bl, g.to_bits(), dl),
        Err(_) => "E".to_string(),
    }
}

// ---------------------------------------------------------------------------------------------
// decoded view of a bank list (what the model consumes)
// ---------------------------------------------------------------------------------------------
pub fn view(run: u32, banks: &[Bank]) -> String {
    let mut toks: Vec<String> = Vec::new();
    let mut oracles: BTreeSet<String> = BTreeSet::new();
    // groups in first-appearance order: (key, [(uid, chunk)])
    let mut groups: Vec<((String, u8), Vec<(usize, Chunk)>)> = Vec::new();
    for (uid, b) in banks.iter().enumerate() {
        match MainEventBankName::try_from(&b.name[..]) {
            Err(_) => toks.push("U".into()),
            Ok(MainEventBankName::Alpha16(Alpha16BankName::A32(bn))) => {
                let nb = bn.board_id().name().to_string();
                let nc = a32_num(bn.channel_id());
                match AdcPacket::try_from(&b.data[..]) {
                    Err(_) => toks.push(format!("W:{}:{}:E", nb, nc)),
                    Ok(p) => {
                        let board = p.board_id().map(|x| x.name().to_string()).unwrap_or("-".into());
                        let ch = match p.channel_id() {
                            alpha16::ChannelId::A32(c) => format!("A{}", a32_num(c)),
                            alpha16::ChannelId::A16(c) => format!("B{}", a16_num(c)),
                        };
                        toks.push(format!("W:{}:{}:{}:{}:{}", nb, nc, board, ch, join_i16(p.waveform())));
                        if let alpha16::ChannelId::A32(c) = p.channel_id() {
                            let fb = p.board_id().unwrap_or(bn.board_id());
                            match TpcWirePosition::try_new(run, fb, c) {
                                Err(_) => {
                                    oracles.insert(format!("wp:{}:{}:E", fb.name(), a32_num(c)));
                                }
                                Ok(w) => {
                                    let wi = usize::from(w);
                                    oracles.insert(format!("wp:{}:{}:{}", fb.name(), a32_num(c), wi));
                                    oracles.insert(format!(
                                        "wc:{}:{}",
                                        wi,
                                        cal_str(alpha_g_physics::verif::wire_calibration(run, wi))
                                    ));
                                }
                            }
                        }
                    }
                }
            }
            Ok(MainEventBankName::Padwing(bn)) => {
                let nb = bn.board_id().name().to_string();
                match Chunk::try_from(&b.data[..]) {
                    Err(_) => toks.push(format!("P:{}:E", nb)),
                    Ok(c) => {
                        let key = (c.board_id().name().to_string(), after_num(c.after_id()));
                        toks.push(format!("P:{}:{}:{}:{}", nb, key.0, key.1, uid));
                        match groups.iter_mut().find(|g| g.0 == key) {
                            Some(g) => g.1.push((uid, c)),
                            None => groups.push((key, vec![(uid, c)])),
                        }
                    }
                }
            }
            Ok(MainEventBankName::Trg(_)) => match TrgPacket::try_from(&b.data[..]) {
                Err(_) => toks.push("T:E".into()),
                Ok(p) => toks.push(format!("T:{}", p.timestamp())),
            },
            Ok(_) => toks.push("O".into()),
        }
    }
    for (_, g) in &groups {
        let uids = g.iter().map(|x| x.0.to_string()).collect::<Vec<_>>().join(",");
        let chunks: Vec<Chunk> = g.iter().map(|x| x.1.clone()).collect();
        match PwbPacket::try_from(chunks) {
            Err(_) => {
                oracles.insert(format!("g:{}:E", uids));
            }
            Ok(p) => {
                let board = p.board_id();
                let chip = p.after_id();
                let mut sent = Vec::new();
                for &ch in p.channels_sent() {
                    let w = p.waveform_at(ch).unwrap();
                    let id = match ch {
                        padwing::ChannelId::Pad(c) => format!("P{}", pad_num(c)),
                        padwing::ChannelId::Fpn(c) => format!("F{}", fpn_num(c)),
                        padwing::ChannelId::Reset(c) => format!("R{}", reset_num(c)),
                    };
                    sent.push(format!("{}={}", id, join_i16(w)));
                    if let padwing::ChannelId::Pad(pc) = ch {
                        let pre = format!("pp:{}:{}:{}", board.name(), after_num(chip), pad_num(pc));
                        match TpcPadPosition::try_new(run, board, chip, pc) {
                            Err(_) => {
                                oracles.insert(format!("{}:E", pre));
                            }
                            Ok(pos) => {
                                let (c, r) = (usize::from(pos.column), usize::from(pos.row));
                                oracles.insert(format!("{}:{}:{}", pre, c, r));
                                oracles.insert(format!(
                                    "pc:{}:{}:{}",
                                    c,
                                    r,
                                    cal_str(alpha_g_physics::verif::pad_calibration(run, c, r))
                                ));
                            }
                        }
                    }
                }
                let sent = if sent.is_empty() { "-".to_string() } else { sent.join("/") };
                oracles.insert(format!("g:{}:{}:{}:{}", uids, board.name(), after_num(chip), sent));
            }
        }
    }
    toks.extend(oracles);
    toks.join(" ")
}

// ---------------------------------------------------------------------------------------------
// implementation observation
// ---------------------------------------------------------------------------------------------
pub fn fnv(sig: &[f64]) -> u64 {
    let mut h: u64 = 0xcbf29ce484222325;
    for f in sig {
        for b in f.to_bits().to_le_bytes() {
            h = (h ^ b as u64).wrapping_mul(0x100000001b3);
        }
    }
    h
}
fn sig_str(sig: &[f64]) -> String {
    format!(
        "{}:{:016x}:{}",
        sig.len(),
        fnv(sig),
        sig.iter().take(4).map(|f| format!("{:016x}", f.to_bits())).collect::<Vec<_>>().join(",")
    )
}
pub fn event_obs(ev: &MainEvent) -> String {
    let (wires, pads) = ev.verif_signals();
    let mut out = vec![format!("ok {}", ev.timestamp())];
    for (i, w) in wires.iter().enumerate() {
        if let Some(s) = w {
            out.push(format!("w{}={}", i, sig_str(s)));
        }
    }
    for (c, col) in pads.iter().enumerate() {
        for (r, p) in col.iter().enumerate() {
            if let Some(s) = p {
                out.push(format!("p{}.{}={}", c, r, sig_str(s)));
            }
        }
    }
    out.join(" ")
}
pub fn build_real(run: u32, banks: &[Bank]) -> Option<Result<MainEvent, ()>> {
    let b: Vec<Bank> = banks.to_vec();
    catch(move || {
        MainEvent::try_from_banks(run, b.iter().map(|x| (&x.name[..], &x.data[..]))).map_err(|_| ())
    })
}
pub fn observe(run: u32, banks: &[Bank]) -> String {
    match build_real(run, banks) {
        None => "panic".into(),
        Some(Err(_)) => "err".into(),
        Some(Ok(ev)) => event_obs(&ev),
    }
}

// ---------------------------------------------------------------------------------------------
// case lines
// ---------------------------------------------------------------------------------------------
pub fn raw_str(run: u32, banks: &[Bank]) -> String {
    let mut s = run.to_string();
    for b in banks {
        s.push(' ');
        s.push_str(&hex(b.name.as_bytes()));
        s.push(':');
        s.push_str(&hex(&b.data));
    }
    s
}
pub fn case_line(tag: &str, run: u32, banks: &[Bank]) -> String {
    let v = catch({
        let b = banks.to_vec();
        move || view(run, &b)
    })
    .unwrap_or_else(|| "VIEW-PANIC".to_string());
    format!("{} {} | {}", tag, raw_str(run, banks), v)
}
/// parse `<run> <namehex>:<datahex>* [| ...]`
pub fn parse_raw(toks: &[&str]) -> Option<(u32, Vec<Bank>)> {
    let run = toks.first()?.parse::<u32>().ok()?;
    let mut banks = Vec::new();
    for t in &toks[1..] {
        if *t == "|" {
            break;
        }
        let (n, d) = t.split_once(':')?;
        banks.push(Bank { name: String::from_utf8(unhex(n)).ok()?, data: unhex(d) });
    }
    Some((run, banks))
}

pub fn observe_line(line: &str) -> Option<String> {
    let toks: Vec<&str> = line.split(' ').collect();
    if toks.first() != Some(&"evt10") {
        return None;
    }
    let (run, banks) = parse_raw(&toks[1..])?;
    Some(observe(run, &banks))
}

// ---------------------------------------------------------------------------------------------
// generators
// ---------------------------------------------------------------------------------------------
pub const RUNS_MAIN: [u32; 9] = [u32::MAX, 4418, 7026, 9277, 10418, 11084, 11186, 11192, 12000];
/// every literal of the `match run_number` arms in aw_map.rs, padwing/map.rs, calibration/** with +-1
pub const RUNS_EDGE: [u32; 29] = [
    0, 1, 2723, 2724, 2725, 2940, 2941, 2942, 4417, 4419, 6999, 7000, 7001, 7025, 7027, 9276, 9278, 10417, 10419,
    11083, 11085, 11185, 11187, 11191, 11193, 5000, 20000, u32::MAX - 1, u32::MAX - 2,
];
pub fn pick_run(r: &mut Rng) -> u32 {
    match r.below(10) {
        0..=3 => u32::MAX,
        4..=6 => r.pick(&[9277u32, 10418, 11084, 11186, 11192, 12000, 9278, 10417, 10419, 11083, 11085, 11187, 11193]),
        7 => r.pick(&RUNS_MAIN),
        _ => r.pick(&RUNS_EDGE),
    }
}
/// waveform lengths around the guards: 64 baseline samples, delays 100 / 115 / 129
pub const WIRE_LENS: [usize; 14] = [64, 65, 66, 99, 100, 101, 102, 128, 129, 130, 131, 140, 200, 509];
pub const PAD_LENS: [u16; 16] = [0, 1, 2, 50, 99, 100, 101, 102, 114, 115, 116, 117, 130, 255, 510, 511];

pub fn samples(r: &mut Rng, n: usize, lo: i16, hi: i16) -> Vec<i16> {
    let style = r.below(6);
    let base = r.range(0, (hi as i64 - lo as i64) as u64) as i64 + lo as i64;
    (0..n)
        .map(|i| {
            let v: i64 = match style {
                0 => base,
                1 => base + (r.below(21) as i64 - 10),
                2 => r.pick(&[lo as i64, hi as i64, 0, -1, 1, lo as i64 + 1, hi as i64 - 1]),
                3 => {
                    if i >= 64 && r.chance(1, 8) {
                        r.pick(&[lo as i64, hi as i64])
                    } else {
                        base
                    }
                }
                _ => r.range(0, (hi as i64 - lo as i64) as u64) as i64 + lo as i64,
            };
            v.clamp(lo as i64, hi as i64) as i16
        })
        .collect()
}

/// description of one generated bank, kept beside the bytes so that perturbations know what it is
#[derive(Clone, Debug)]
pub enum Kind {
    Wire { board: usize, chan: u8, short: bool },
    Pad { board: usize, chip: u8 },
    Trg,
    Other,
}
#[derive(Clone)]
pub struct Ev {
    pub run: u32,
    pub banks: Vec<Bank>,
    pub kinds: Vec<Kind>,
}

pub fn wire_bank(w: &World, r: &mut Rng, board: usize, chan: u8, run: u32) -> Bank {
    let _ = run;
    let n = r.pick(&WIRE_LENS);
    let s = samples(r, n, i16::MIN, i16::MAX);
    // suppression enabled: keep_last with last_index = (kl-1)*2-2 <= n-1
    let max_kl = ((n + 1) / 2 + 1) as u64;
    let supp = if r.chance(1, 4) && max_kl >= 34 { Some(r.range(34, max_kl) as u16) } else { None };
    Bank { name: wire_name(&w.a16[board].name, chan), data: adc_long(w.a16[board].mac, 128 + chan, &s, supp, None) }
}
pub fn short_bank(w: &World, r: &mut Rng, board: usize, chan: u8) -> Bank {
    Bank {
        name: wire_name(&w.a16[board].name, chan),
        data: adc_short(128 + chan, r.pick(&[0u16, 1, 2, 66, 511, 699, 65535]), r.next() as i16),
    }
}
/// one PWB packet of (board, chip) with the given readout channels, split into `nchunks` banks
pub fn pad_banks(w: &World, r: &mut Rng, board: usize, chip: u8, chans: &[u16], nsamp: u16, nchunks: usize) -> Vec<Bank> {
    let mut cs: Vec<u16> = chans.to_vec();
    cs.sort();
    cs.dedup();
    let data: Vec<(u16, Vec<i16>)> =
        cs.iter().map(|&c| (c, samples(r, nsamp as usize, i16::MIN, i16::MAX))).collect();
    let payload = pwb_payload(w.pwb[board].mac, b'A' + chip, nsamp, &data);
    split_chunks(w.pwb[board].dev, chip, &payload, nchunks)
        .into_iter()
        .map(|d| Bank { name: format!("PC{}", w.pwb[board].name), data: d })
        .collect()
}
pub fn trg_bank(r: &mut Rng) -> Bank {
    let ts = r.boundary(u32::MAX as u64) as u32;
    let out = r.below(1000) as u32;
    Bank { name: "ATAT".into(), data: trg(ts, out, out + 5, out + 3, out + 1) }
}
pub fn other_bank(w: &World, r: &mut Rng) -> Bank {
    match r.below(3) {
        0 => Bank { name: format!("B{}{:X}", w.a16[r.below(w.a16.len() as u64) as usize].name, r.below(16)), data: { let n = r.below(40) as usize; r.bytes(n) } },
        1 => Bank { name: "TRBA".into(), data: { let n = r.below(40) as usize; r.bytes(n) } },
        _ => Bank { name: "MCVX".into(), data: r.bytes(24) },
    }
}
fn shuffle<T>(r: &mut Rng, a: &mut [T], b: &mut [impl Sized]) {
    for i in (1..a.len()).rev() {
        let j = r.below(i as u64 + 1) as usize;
        a.swap(i, j);
        b.swap(i, j);
    }
}
pub fn rand_chans(r: &mut Rng) -> Vec<u16> {
    let k = match r.below(6) {
        0 => 0,
        1 => 1,
        2 => 79,
        _ => r.range(1, 8),
    };
    if k == 79 {
        return (1..=79).collect();
    }
    let mut v: Vec<u16> = (0..k).map(|_| r.pick(&[1u16, 2, 3, 4, 15, 16, 17, 28, 29, 30, 53, 54, 55, 66, 67, 68, 78, 79, 40, 41])).collect();
    if r.chance(1, 2) {
        v = (0..k).map(|_| r.range(1, 79) as u16).collect();
    }
    v
}

/// a consistent event: distinct wire names, distinct (board, chip) groups, one TRG, some ignored banks
pub fn base_event(w: &World, r: &mut Rng, run: u32, big: bool) -> Ev {
    let mut banks = Vec::new();
    let mut kinds = Vec::new();
    let nw = if big { r.range(3, 12) } else { r.below(4) };
    let mut names: Vec<(usize, u8)> = Vec::new();
    for _ in 0..nw {
        let b = r.below(w.a16.len() as u64) as usize;
        let c = r.below(32) as u8;
        if names.contains(&(b, c)) {
            continue;
        }
        names.push((b, c));
        let short = r.chance(1, 5);
        banks.push(if short { short_bank(w, r, b, c) } else { wire_bank(w, r, b, c, run) });
        kinds.push(Kind::Wire { board: b, chan: c, short });
    }
    let ng = if big { r.range(1, 4) } else { r.below(3) };
    let mut keys: Vec<(usize, u8)> = Vec::new();
    for _ in 0..ng {
        let b = r.below(w.pwb.len() as u64) as usize;
        let chip = r.below(4) as u8;
        if keys.contains(&(b, chip)) {
            continue;
        }
        keys.push((b, chip));
        let chans = rand_chans(r);
        let nsamp = if chans.len() > 20 { r.pick(&[0u16, 1, 101, 116]) } else { r.pick(&PAD_LENS) };
        let nch = r.range(1, 3) as usize;
        for bk in pad_banks(w, r, b, chip, &chans, nsamp, nch) {
            banks.push(bk);
            kinds.push(Kind::Pad { board: b, chip });
        }
    }
    banks.push(trg_bank(r));
    kinds.push(Kind::Trg);
    for _ in 0..r.below(3) {
        banks.push(other_bank(w, r));
        kinds.push(Kind::Other);
    }
    shuffle(r, &mut banks, &mut kinds);
    Ev { run, banks, kinds }
}

fn find_kind(ev: &Ev, r: &mut Rng, f: impl Fn(&Kind) -> bool) -> Option<usize> {
    let idx: Vec<usize> = (0..ev.kinds.len()).filter(|&i| f(&ev.kinds[i])).collect();
    if idx.is_empty() {
        None
    } else {
        Some(r.pick(&idx))
    }
}
fn is_wire(k: &Kind) -> bool {
    matches!(k, Kind::Wire { .. })
}
fn is_pad(k: &Kind) -> bool {
    matches!(k, Kind::Pad { .. })
}

pub const N_PERTURB: u64 = 22;
/// one inconsistency of the property's quantifier text; returns its label
pub fn perturb(w: &World, r: &mut Rng, ev: &mut Ev, which: u64) -> Option<&'static str> {
    match which {
        0 => {
            // renamed wire bank: other channel / other board / BV name
            let i = find_kind(ev, r, is_wire)?;
            if let Kind::Wire { board, chan, .. } = ev.kinds[i].clone() {
                ev.banks[i].name = match r.below(3) {
                    0 => wire_name(&w.a16[board].name, (chan + 1 + r.below(31) as u8) % 32),
                    1 => wire_name(&w.a16[(board + 1 + r.below(7) as usize) % w.a16.len()].name, chan),
                    _ => format!("B{}{:X}", w.a16[board].name, chan % 16),
                };
            }
            Some("renamed-wire-bank")
        }
        1 => {
            // swapped payloads of two banks
            if ev.banks.len() < 2 {
                return None;
            }
            let i = r.below(ev.banks.len() as u64) as usize;
            let j = (i + 1 + r.below(ev.banks.len() as u64 - 1) as usize) % ev.banks.len();
            let (a, b) = (ev.banks[i].data.clone(), ev.banks[j].data.clone());
            ev.banks[i].data = b;
            ev.banks[j].data = a;
            Some("swapped-payloads")
        }
        2 => {
            // duplicated bank (same bytes) at a random position
            let i = r.below(ev.banks.len() as u64) as usize;
            let (b, k) = (ev.banks[i].clone(), ev.kinds[i].clone());
            let at = r.below(ev.banks.len() as u64 + 1) as usize;
            ev.banks.insert(at, b);
            ev.kinds.insert(at, k);
            Some("duplicated-bank")
        }
        3 | 4 => {
            // duplicated wire bank, one copy without post-delay signal: short-then-long (3) / long-then-short (4)
            let i = find_kind(ev, r, is_wire)?;
            if let Kind::Wire { board, chan, .. } = ev.kinds[i].clone() {
                let long = {
                    let s = samples(r, 300, -2000, 2000);
                    Bank { name: wire_name(&w.a16[board].name, chan), data: adc_long(w.a16[board].mac, 128 + chan, &s, None, None) }
                };
                let short = if r.chance(1, 2) {
                    short_bank(w, r, board, chan)
                } else {
                    let s = { let n = r.pick(&[64usize, 70, 99, 100]); samples(r, n, -2000, 2000) };
                    Bank { name: wire_name(&w.a16[board].name, chan), data: adc_long(w.a16[board].mac, 128 + chan, &s, None, None) }
                };
                ev.banks.remove(i);
                let k = ev.kinds.remove(i);
                let a = r.below(ev.banks.len() as u64 + 1) as usize;
                let b2 = r.range(a as u64, ev.banks.len() as u64) as usize + 1;
                let (first, second) = if which == 3 { (short, long) } else { (long, short) };
                ev.banks.insert(a, first);
                ev.kinds.insert(a, k.clone());
                ev.banks.insert(b2, second);
                ev.kinds.insert(b2, k);
            }
            Some(if which == 3 { "dup-wire-short-then-long" } else { "dup-wire-long-then-short" })
        }
        5 => {
            let i = find_kind(ev, r, |k| matches!(k, Kind::Trg))?;
            ev.banks.remove(i);
            ev.kinds.remove(i);
            Some("missing-trg")
        }
        6 => {
            let b = trg_bank(r);
            let at = r.below(ev.banks.len() as u64 + 1) as usize;
            ev.banks.insert(at, b);
            ev.kinds.insert(at, Kind::Trg);
            Some("duplicated-trg")
        }
        7 | 8 => {
            // BV channel in a C bank: long packet (7), 16-byte suppressed packet (8)
            let i = find_kind(ev, r, is_wire)?;
            if let Kind::Wire { board, chan, .. } = ev.kinds[i].clone() {
                let bv = if r.chance(1, 2) { chan % 16 } else { r.below(16) as u8 };
                ev.banks[i].data = if which == 7 {
                    let s = samples(r, 140, -2000, 2000);
                    adc_long(w.a16[board].mac, bv, &s, None, None)
                } else {
                    adc_short(bv, 699, 0)
                };
            }
            Some(if which == 7 { "bv-channel-long" } else { "bv-channel-suppressed" })
        }
        9 | 10 => {
            // payload channel differs from the name: long (9), suppressed (10)
            let i = find_kind(ev, r, is_wire)?;
            if let Kind::Wire { board, chan, .. } = ev.kinds[i].clone() {
                let other = (chan + 1 + r.below(31) as u8) % 32;
                ev.banks[i].data = if which == 9 {
                    let s = samples(r, 140, -2000, 2000);
                    adc_long(w.a16[board].mac, 128 + other, &s, None, None)
                } else {
                    adc_short(128 + other, 699, 0)
                };
            }
            Some(if which == 9 { "channel-mismatch-long" } else { "channel-mismatch-suppressed" })
        }
        11 => {
            // payload MAC of another board
            let i = find_kind(ev, r, is_wire)?;
            if let Kind::Wire { board, chan, .. } = ev.kinds[i].clone() {
                let other = (board + 1 + r.below(w.a16.len() as u64 - 1) as usize) % w.a16.len();
                let s = samples(r, 140, -2000, 2000);
                ev.banks[i].data = adc_long(w.a16[other].mac, 128 + chan, &s, None, None);
            }
            Some("board-mismatch")
        }
        12 => {
            // unknown / near-miss bank name
            let names = [
                "XXXX", "", "C09", "C09a", "CXX0", "C0900", "C19A", "PC99", "PC1", "PCAA", "ATAU", "ATA", "TRBB", "MCVY",
                "SEQ2", "c09A", "B09G", "C09W", "PC79", "atat", "C\u{e9}9", "\u{1F600}",
            ];
            let i = r.below(ev.banks.len() as u64) as usize;
            ev.banks[i].name = if r.chance(3, 4) {
                r.pick(&names).to_string()
            } else {
                (0..4).map(|_| (r.range(32, 126) as u8) as char).collect()
            };
            Some("unknown-name")
        }
        13 => {
            // malformed payload: flip / truncate / extend
            let i = r.below(ev.banks.len() as u64) as usize;
            let d = &mut ev.banks[i].data;
            match r.below(4) {
                0 if !d.is_empty() => {
                    let k = r.below(d.len() as u64) as usize;
                    d[k] ^= 1 << r.below(8);
                }
                1 if !d.is_empty() => {
                    let k = r.below(d.len() as u64) as usize;
                    d.truncate(k);
                }
                2 => d.extend({ let n = r.range(1, 4) as usize; r.bytes(n) }),
                _ => *d = { let n = r.pick(&[0usize, 15, 16, 28, 36, 80]); r.bytes(n) },
            }
            Some("malformed-payload")
        }
        14 => {
            // PWB board that may not be installed for the run / wire event on a run without maps
            ev.run = r.pick(&[0u32, 2723, 2724, 2940, 2941, 4417, 4418, 10417, 10418, 6999, 7000, 7025, 7026, 9276, 9277, 11083]);
            Some("run-without-map-or-calibration")
        }
        15 => {
            // two chunk groups whose payloads name the same (board, chip): header says board A, payload MAC says board B
            let a = r.below(w.pwb.len() as u64) as usize;
            let b = (a + 1 + r.below(w.pwb.len() as u64 - 1) as usize) % w.pwb.len();
            let chip = r.below(4) as u8;
            let hdr_chip = if r.chance(1, 2) { chip } else { r.below(4) as u8 };
            let ch = r.pick(&[4u16, 5, 40, 79]);
            let n1 = r.pick(&[300u16, 120, 50, 100]);
            let n2 = r.pick(&[50u16, 100, 101, 300]);
            let p1 = pwb_payload(w.pwb[b].mac, b'A' + chip, n1, &[(ch, samples(r, n1 as usize, -2048, 2047))]);
            let p2 = pwb_payload(w.pwb[b].mac, b'A' + chip, n2, &[(ch, samples(r, n2 as usize, -2048, 2047))]);
            // drop existing groups of these boards so that the only conflict is the injected one
            let keep: Vec<usize> = (0..ev.kinds.len())
                .filter(|&i| !matches!(ev.kinds[i], Kind::Pad { board, .. } if board == a || board == b))
                .collect();
            ev.banks = keep.iter().map(|&i| ev.banks[i].clone()).collect();
            ev.kinds = keep.iter().map(|&i| ev.kinds[i].clone()).collect();
            let g1 = Bank { name: format!("PC{}", w.pwb[b].name), data: chunk(w.pwb[b].dev, chip, 1, 0, &p1) };
            let g2 = Bank { name: format!("PC{}", w.pwb[a].name), data: chunk(w.pwb[a].dev, hdr_chip, 1, 0, &p2) };
            let (x, y) = if r.chance(1, 2) { (g1, g2) } else { (g2, g1) };
            let at = r.below(ev.banks.len() as u64 + 1) as usize;
            ev.banks.insert(at, x);
            ev.kinds.insert(at, Kind::Pad { board: a, chip });
            let at = r.below(ev.banks.len() as u64 + 1) as usize;
            ev.banks.insert(at, y);
            ev.kinds.insert(at, Kind::Pad { board: b, chip });
            Some("two-groups-same-payload-board-chip")
        }
        16 => {
            // pad bank renamed to another PWB board
            let i = find_kind(ev, r, is_pad)?;
            let o = r.below(w.pwb.len() as u64) as usize;
            ev.banks[i].name = format!("PC{}", w.pwb[o].name);
            Some("renamed-pad-bank")
        }
        17 => {
            // a chunk of a multi-chunk packet removed or duplicated
            let i = find_kind(ev, r, is_pad)?;
            if r.chance(1, 2) {
                ev.banks.remove(i);
                ev.kinds.remove(i);
                Some("missing-chunk")
            } else {
                let (b, k) = (ev.banks[i].clone(), ev.kinds[i].clone());
                let at = r.below(ev.banks.len() as u64 + 1) as usize;
                ev.banks.insert(at, b);
                ev.kinds.insert(at, k);
                Some("duplicated-chunk")
            }
        }
        18 => {
            // same (board, chip) sent twice as two complete single-chunk packets in one group
            let i = find_kind(ev, r, is_pad)?;
            if let Kind::Pad { board, chip } = ev.kinds[i].clone() {
                for bk in pad_banks(w, r, board, chip, &[5, 6], 110, 1) {
                    let at = r.below(ev.banks.len() as u64 + 1) as usize;
                    ev.banks.insert(at, bk);
                    ev.kinds.insert(at, Kind::Pad { board, chip });
                }
            }
            Some("second-packet-same-group")
        }
        19 => {
            // payload chip letter differs from the chunk header's chip: placement follows the payload
            let b = r.below(w.pwb.len() as u64) as usize;
            let (c1, c2) = (r.below(4) as u8, r.below(4) as u8);
            let n = r.pick(&[101u16, 116, 130]);
            let p = pwb_payload(w.pwb[b].mac, b'A' + c2, n, &[(7, samples(r, n as usize, -2048, 2047)), (30, samples(r, n as usize, -2048, 2047))]);
            let keep: Vec<usize> =
                (0..ev.kinds.len()).filter(|&i| !matches!(ev.kinds[i], Kind::Pad { board, .. } if board == b)).collect();
            ev.banks = keep.iter().map(|&i| ev.banks[i].clone()).collect();
            ev.kinds = keep.iter().map(|&i| ev.kinds[i].clone()).collect();
            let at = r.below(ev.banks.len() as u64 + 1) as usize;
            ev.banks.insert(at, Bank { name: format!("PC{}", w.pwb[b].name), data: chunk(w.pwb[b].dev, c1, 1, 0, &p) });
            ev.kinds.insert(at, Kind::Pad { board: b, chip: c1 });
            Some("payload-chip-differs-from-header")
        }
        20 => {
            // wire bank whose waveform ends exactly around the delay (empty / one-sample signal)
            let i = find_kind(ev, r, is_wire)?;
            if let Kind::Wire { board, chan, .. } = ev.kinds[i].clone() {
                let n = r.pick(&[99usize, 100, 101, 128, 129, 130]);
                let s = samples(r, n, i16::MIN, i16::MAX);
                ev.banks[i].data = adc_long(w.a16[board].mac, 128 + chan, &s, None, None);
                ev.kinds[i] = Kind::Wire { board, chan, short: false };
            }
            Some("wire-length-at-delay")
        }
        _ => {
            // trg bank with a payload of another kind / wire bank carrying a TRG payload
            let i = find_kind(ev, r, |k| matches!(k, Kind::Trg))?;
            let j = find_kind(ev, r, |k| !matches!(k, Kind::Trg))?;
            ev.banks[i].data = ev.banks[j].data.clone();
            Some("trg-with-foreign-payload")
        }
    }
}

pub fn emit(s: &mut Sink, tag: &str, label: &str, run: u32, banks: &[Bank]) {
    let line = case_line(tag, run, banks);
    let obs = observe(run, banks);
    let nt = obs != "err" || banks.len() > 1;
    s.put(&line, &obs, label, nt);
}

/// all 32 channels of one Alpha16 board in one event
pub fn board_sweep_wires(w: &World, r: &mut Rng, _run: u32, board: usize) -> Vec<Bank> {
    let mut banks: Vec<Bank> = (0..32u8)
        .map(|c| {
            let n = r.pick(&[130usize, 131, 135]);
            let s = samples(r, n, -3000, 3000);
            Bank { name: wire_name(&w.a16[board].name, c), data: adc_long(w.a16[board].mac, 128 + c, &s, None, None) }
        })
        .collect();
    banks.push(trg_bank(r));
    banks
}
/// all 79 readout channels of one (board, chip)
pub fn board_sweep_pads(w: &World, r: &mut Rng, board: usize, chip: u8, nsamp: u16) -> Vec<Bank> {
    let chans: Vec<u16> = (1..=79).collect();
    let mut banks = { let k = r.range(1, 4) as usize; pad_banks(w, r, board, chip, &chans, nsamp, k) };
    banks.push(trg_bank(r));
    banks
}

/// a consistent event that the implementation accepts (so that one injected inconsistency is the
/// only thing that decides the outcome)
pub fn clean_base(w: &World, r: &mut Rng, run: Option<u32>) -> Ev {
    loop {
        let run = run.unwrap_or_else(|| r.pick(&[u32::MAX, u32::MAX, 11192, 11186, 11084, 10418, 9277, 12000]));
        let big = r.chance(1, 8);
        let ev = base_event(w, r, run, big);
        if observe(ev.run, &ev.banks).starts_with("ok") {
            return ev;
        }
    }
}
/// insert `extra` into the bank list of `base` at random positions, keeping their relative order
pub fn inject(r: &mut Rng, base: &Ev, extra: &[Bank]) -> Vec<Bank> {
    let mut pos: Vec<usize> = (0..extra.len()).map(|_| r.below(base.banks.len() as u64 + 1) as usize).collect();
    pos.sort();
    let mut out = Vec::new();
    let mut k = 0;
    for i in 0..=base.banks.len() {
        while k < extra.len() && pos[k] == i {
            out.push(extra[k].clone());
            k += 1;
        }
        if i < base.banks.len() {
            out.push(base.banks[i].clone());
        }
    }
    out
}
fn pwb_installed(w: &World, run: u32, board: usize) -> bool {
    let b = padwing::BoardId::try_from(&w.pwb[board].name[..]).unwrap();
    alpha_g_detector::padwing::map::TpcPwbPosition::try_new(run, b).is_ok()
}
/// samples: quiet before the delay, the listed values after it
fn wave(n_pre: usize, level: i16, post: &[i16]) -> Vec<i16> {
    let mut v = vec![level; n_pre];
    v.extend_from_slice(post);
    v
}

/// For every check of try_from_banks: cases on an otherwise accepted event in which ONLY that check
/// decides, with both relative orders of the banks involved.
pub fn decisive(w: &World, r: &mut Rng, s: &mut Sink, reps: usize) {
    const EXT: [i16; 10] = [i16::MIN, i16::MAX, i16::MIN + 1, i16::MAX - 1, 0, -1, 1, 3000, -3000, 1725];
    for rep in 0..reps {
        let run = [u32::MAX, 11192, 9277, u32::MAX][rep % 4];
        let (wd, pd) = if run == u32::MAX { (100usize, 100u16) } else { (129usize, 115u16) };
        let base = clean_base(w, r, Some(run));
        let mut q = Rng::new(r.next());
        // a wire name and two PWB boards the base does not use
        let (b, c) = loop {
            let b = r.below(w.a16.len() as u64) as usize;
            let c = r.below(32) as u8;
            if !base.kinds.iter().any(|k| matches!(k, Kind::Wire { board, chan, .. } if *board == b && *chan == c)) {
                break (b, c);
            }
        };
        let free_pwb = |r: &mut Rng, installed: bool, not: usize| loop {
            let pb = r.below(w.pwb.len() as u64) as usize;
            if pb != not
                && pwb_installed(w, run, pb) == installed
                && !base.kinds.iter().any(|k| matches!(k, Kind::Pad { board, .. } if *board == pb))
            {
                break pb;
            }
        };
        let pb = free_pwb(r, true, usize::MAX);
        let pb2 = free_pwb(r, true, pb);
        let chip = r.below(4) as u8;
        let name = wire_name(&w.a16[b].name, c);
        let mac = w.a16[b].mac;
        let ob = (b + 1 + r.below(w.a16.len() as u64 - 1) as usize) % w.a16.len();
        let oc = (c + 1 + r.below(31) as u8) % 32;
        let long = |r: &mut Rng, n: usize| -> Vec<u8> { adc_long(mac, 128 + c, &samples(r, n, -3000, 3000), None, None) };
        let put = |r: &mut Rng, s: &mut Sink, label: &str, extra: &[Bank]| {
            let banks = inject(r, &base, extra);
            emit(s, "evt10", label, run, &banks);
        };
        let wb = |data: Vec<u8>| Bank { name: name.clone(), data };
        // reference and single-bank decisions
        let l300 = long(&mut q, 300);
        put(r, s, "only-reference-wire-accepted", &[wb(l300.clone())]);
        for bad in ["C09a", "XXXX", "C19A", "C09W"] {
            put(r, s, "only-unknown-name", &[Bank { name: bad.to_string(), data: l300.clone() }]);
        }
        {
            let mut d = l300.clone();
            let k = d.len() - 1;
            d[k] ^= 1;
            put(r, s, "only-malformed-wire-payload", &[wb(d)]);
            let mut d = l300.clone();
            d.pop();
            put(r, s, "only-malformed-wire-payload", &[wb(d)]);
        }
        let bvs = adc_long(mac, c % 16, &samples(&mut q, 300, -3000, 3000), None, None);
        put(r, s, "only-bv-channel-long", &[wb(bvs)]);
        put(r, s, "only-bv-channel-suppressed", &[wb(adc_short(c % 16, 699, 5))]);
        put(r, s, "only-channel-mismatch-long", &[wb(adc_long(mac, 128 + oc, &samples(&mut q, 300, -3000, 3000), None, None))]);
        put(r, s, "only-channel-mismatch-suppressed", &[wb(adc_short(128 + oc, 699, 5))]);
        put(r, s, "only-board-mismatch-long", &[wb(adc_long(w.a16[ob].mac, 128 + c, &samples(&mut q, 300, -3000, 3000), None, None))]);
        put(r, s, "only-suppressed-accepted", &[wb(adc_short(128 + c, 699, 5))]);
        // duplicated name: every combination of {suppressed, long but empty after the delay, long with signal}
        let variants = |r: &mut Rng| -> Vec<(&'static str, Vec<u8>)> {
            vec![
                ("supp", adc_short(128 + c, 699, 5)),
                ("empty", { let n = r.pick(&[64usize, 65, wd - 1, wd]); long(r, n) }),
                ("signal", { let n = r.pick(&[wd + 1, wd + 2, 300]); long(r, n) }),
            ]
        };
        let (v1, v2) = (variants(&mut q), variants(&mut q));
        for (n1, d1) in &v1 {
            for (n2, d2) in &v2 {
                let label = format!("only-duplicate-wire-{}-then-{}", n1, n2);
                put(r, s, &label, &[wb(d1.clone()), wb(d2.clone())]);
            }
        }
        // waveform length around the delay; sample extremes after the delay
        for n in [64, wd - 1, wd, wd + 1, wd + 2] {
            let lv = r.pick(&[-3000i16, 0, 3000, i16::MIN, i16::MAX]);
            let post: Vec<i16> = (0..n.saturating_sub(wd)).map(|_| r.pick(&EXT)).collect();
            let pre = n.min(wd);
            put(r, s, "only-wire-length-at-delay", &[wb(adc_long(mac, 128 + c, &wave(pre, lv, &post), None, None))]);
        }
        for lv in [i16::MIN, -1, 0, i16::MAX] {
            let d = adc_long(mac, 128 + c, &wave(wd, lv, &EXT), None, None);
            put(r, s, "only-wire-sample-extremes", &[wb(d)]);
        }
        // pads
        let pname = |i: usize| format!("PC{}", w.pwb[i].name);
        let one = |i: usize, hdr_chip: u8, pay_board: usize, pay_chip: u8, n: u16, chans: &[(u16, Vec<i16>)]| -> Bank {
            Bank { name: pname(i), data: chunk(w.pwb[i].dev, hdr_chip, 1, 0, &pwb_payload(w.pwb[pay_board].mac, b'A' + pay_chip, n, chans)) }
        };
        let ws = |r: &mut Rng, n: u16| samples(r, n as usize, -2048, 2047);
        let n_ok = pd + 3;
        put(r, s, "only-reference-pad-accepted", &[one(pb, chip, pb, chip, n_ok, &[(4, ws(&mut q, n_ok)), (79, ws(&mut q, n_ok))])]);
        put(r, s, "only-fpn-reset-channels-sent", &[one(pb, chip, pb, chip, n_ok,
            &[(1, ws(&mut q, n_ok)), (2, ws(&mut q, n_ok)), (3, ws(&mut q, n_ok)), (16, ws(&mut q, n_ok)), (29, ws(&mut q, n_ok)), (54, ws(&mut q, n_ok)), (67, ws(&mut q, n_ok))])]);
        put(r, s, "only-fpn-reset-beside-pad-channels", &[one(pb, chip, pb, chip, n_ok,
            &[(1, ws(&mut q, n_ok)), (4, ws(&mut q, n_ok)), (16, ws(&mut q, n_ok)), (17, ws(&mut q, n_ok)), (67, ws(&mut q, n_ok)), (68, ws(&mut q, n_ok)), (79, ws(&mut q, n_ok))])]);
        for n in [0u16, 1, pd - 1, pd, pd + 1, pd + 2] {
            put(r, s, "only-pad-length-at-delay", &[one(pb, chip, pb, chip, n, &[(5, ws(&mut q, n)), (30, ws(&mut q, n))])]);
        }
        {
            let n = pd + EXT.len() as u16;
            for lv in [i16::MIN, 0, i16::MAX] {
                put(r, s, "only-pad-sample-extremes", &[one(pb, chip, pb, chip, n, &[(6, wave(pd as usize, lv, &EXT))])]);
            }
        }
        // two chunk groups colliding on one pad: every combination of empty / non-empty after the delay, both orders
        for n1 in [pd - 1, pd + 5] {
            for n2 in [pd - 1, pd + 5] {
                for hdr_chip in [chip, (chip + 1) % 4] {
                    let g1 = one(pb, chip, pb, chip, n1, &[(9, ws(&mut q, n1))]);
                    let g2 = one(pb2, hdr_chip, pb, chip, n2, &[(9, ws(&mut q, n2))]);
                    put(r, s, "only-two-groups-collide-on-a-pad", &[g1.clone(), g2.clone()]);
                    put(r, s, "only-two-groups-collide-on-a-pad", &[g2, g1]);
                }
            }
        }
        {
            // same two groups on different channels: accepted, placement by the payload's board and chip
            let g1 = one(pb, chip, pb, chip, n_ok, &[(9, ws(&mut q, n_ok))]);
            let g2 = one(pb2, chip, pb, chip, n_ok, &[(10, ws(&mut q, n_ok))]);
            put(r, s, "only-two-groups-same-payload-board-no-collision", &[g1.clone(), g2.clone()]);
            put(r, s, "only-two-groups-same-payload-board-no-collision", &[g2, g1]);
            let g3 = one(pb, chip, pb, (chip + 1) % 4, n_ok, &[(9, ws(&mut q, n_ok))]);
            put(r, s, "only-payload-chip-differs-from-header", &[g3]);
        }
        {
            let g = one(pb, chip, pb, chip, n_ok, &[(4, ws(&mut q, n_ok))]);
            put(r, s, "only-pad-bank-renamed", &[Bank { name: pname(pb2), data: g.data.clone() }]);
            let mut d = g.data.clone();
            let k = d.len() - 6;
            d[k] ^= 4;
            put(r, s, "only-malformed-chunk", &[Bank { name: pname(pb), data: d }]);
            // two-chunk packet: complete in both orders, each chunk alone, a chunk twice
            let payload = pwb_payload(w.pwb[pb].mac, b'A' + chip, n_ok, &[(4, ws(&mut q, n_ok)), (5, ws(&mut q, n_ok))]);
            let parts = split_chunks(w.pwb[pb].dev, chip, &payload, 2);
            let cb = |k: usize| Bank { name: pname(pb), data: parts[k].clone() };
            put(r, s, "only-two-chunks-in-order", &[cb(0), cb(1)]);
            put(r, s, "only-two-chunks-reversed", &[cb(1), cb(0)]);
            put(r, s, "only-missing-chunk", &[cb(0)]);
            put(r, s, "only-missing-chunk", &[cb(1)]);
            put(r, s, "only-duplicated-chunk", &[cb(0), cb(1), cb(1)]);
            put(r, s, "only-duplicated-chunk", &[cb(0), cb(0), cb(1)]);
        }
        if let Some(nb) = (0..w.pwb.len()).find(|&i| !pwb_installed(w, run, i)) {
            let g = one(nb, chip, nb, chip, n_ok, &[(4, ws(&mut q, n_ok))]);
            put(r, s, "only-pad-board-not-installed", &[g]);
            // only Fpn/Reset channels of a board that is not installed: nothing to map, accepted
            let g = one(nb, chip, nb, chip, n_ok, &[(1, ws(&mut q, n_ok)), (16, ws(&mut q, n_ok))]);
            put(r, s, "only-not-installed-board-without-pad-channels", &[g]);
        }
        // TRG
        {
            let keep: Vec<usize> = (0..base.banks.len()).filter(|&i| !matches!(base.kinds[i], Kind::Trg)).collect();
            let no_trg = Ev { run, banks: keep.iter().map(|&i| base.banks[i].clone()).collect(), kinds: keep.iter().map(|&i| base.kinds[i].clone()).collect() };
            emit(s, "evt10", "only-missing-trg", run, &no_trg.banks);
            let t = trg_bank(r);
            emit(s, "evt10", "only-trg-restored", run, &inject(r, &no_trg, &[t.clone()]));
            let mut bad = t.clone();
            bad.data[79] ^= 0x10;
            emit(s, "evt10", "only-malformed-trg", run, &inject(r, &no_trg, &[bad]));
            let mut bad = t.clone();
            bad.data.pop();
            emit(s, "evt10", "only-malformed-trg", run, &inject(r, &no_trg, &[bad]));
            put(r, s, "only-duplicated-trg", &[t]);
        }
        put(r, s, "only-ignored-banks", &[
            Bank { name: format!("B{}{:X}", w.a16[b].name, c % 16), data: q.bytes(7) },
            Bank { name: "TRBA".into(), data: vec![] },
            Bank { name: "MCVX".into(), data: q.bytes(3) },
        ]);
    }
}

pub fn run(tier: &str, seed: u64, s: &mut Sink) {
    let w = world();
    let mut r = Rng::new(seed ^ 0xC10);
    let thorough = tier == "thorough";
    // 1. sweeps: every (board, channel) pair and (board, chip, pad) triple
    let sweep_runs: Vec<u32> = if thorough {
        RUNS_MAIN.iter().chain(RUNS_EDGE.iter()).copied().collect()
    } else {
        vec![u32::MAX, 9277, 11192, 10417, 7026]
    };
    for &run in &sweep_runs {
        for b in 0..w.a16.len() {
            let banks = board_sweep_wires(&w, &mut r, run, b);
            emit(s, "evt10", "sweep-wires-32-channels-of-a-board", run, &banks);
        }
    }
    let pad_runs: Vec<u32> = if thorough { vec![u32::MAX, 9277, 10417, 10418, 11084, 11192, 4418, 9276] } else { vec![u32::MAX, 11192] };
    for &run in &pad_runs {
        for b in 0..w.pwb.len() {
            for chip in 0..4u8 {
                if !thorough && !r.chance(1, 12) {
                    continue;
                }
                let nsamp = if run == u32::MAX { 101 } else { 116 };
                let banks = board_sweep_pads(&w, &mut r, b, chip, nsamp);
                emit(s, "evt10", "sweep-pads-79-channels-of-a-chip", run, &banks);
            }
        }
    }
    // 1b. per check: cases in which only that check decides
    decisive(&w, &mut r, s, if thorough { 60 } else { 8 });
    // 2. consistent events
    let n_valid = if thorough { 6000 } else { 900 };
    for i in 0..n_valid {
        let run = pick_run(&mut r);
        let ev = base_event(&w, &mut r, run, i % 10 == 0);
        emit(s, "evt10", "consistent-event", ev.run, &ev.banks);
    }
    // 3. one inconsistency per case, every class equally often
    let n_pert = if thorough { 600 } else { 90 };
    for which in 0..N_PERTURB {
        let mut done = 0;
        let mut tries = 0;
        while done < n_pert && tries < 20 * n_pert {
            tries += 1;
            // mostly on an accepted event, so that the injected inconsistency alone decides
            let mut ev = if tries % 4 == 3 {
                let run = pick_run(&mut r);
                base_event(&w, &mut r, run, tries % 7 == 0)
            } else {
                clean_base(&w, &mut r, None)
            };
            if let Some(label) = perturb(&w, &mut r, &mut ev, which) {
                emit(s, "evt10", label, ev.run, &ev.banks);
                done += 1;
            }
        }
    }
    // 4. random names and bytes
    let n_rand = if thorough { 3000 } else { 300 };
    for _ in 0..n_rand {
        let k = r.below(4) as usize;
        let banks: Vec<Bank> = (0..k)
            .map(|_| {
                let name = match r.below(5) {
                    0 => wire_name(&w.a16[r.below(8) as usize].name, r.below(32) as u8),
                    1 => format!("PC{}", w.pwb[r.below(w.pwb.len() as u64) as usize].name),
                    2 => "ATAT".to_string(),
                    3 => (0..4).map(|_| (r.range(48, 90) as u8) as char).collect(),
                    _ => other_bank(&w, &mut r).name,
                };
                let n = r.pick(&[0usize, 1, 16, 28, 36, 80, 164]);
                Bank { name, data: r.bytes(n) }
            })
            .collect();
        emit(s, "evt10", "random-names-and-bytes", pick_run(&mut r), &banks);
    }
}
