// C16: reported track parameters are true closest-approach parameters.
//
// Case lines
//   kt <tol> <iters> <x0> <y0> <z0> <r> <phi0> <h> <pr> <pphi> <pz> <tq>     (floats: 16 hex digits of the bits)
//        differential: observation = `ok` + bits of verif_helix_closest_t, of verif_helix_at(t) and of verif_helix_at(tq);
//        the extracted Coq model (coq/Recon/Helix.v, glibc libm) must print the same line
//   relk <x0> <y0> <z0> <r> <phi0> <h> <pr> <pphi> <pz>
//        implementation alone (a TEST, not a proof): with the library's tolerance f64::EPSILON and 20
//        iterations, t is not NaN, lies in [-pi, pi], and if strictly inside no other t of a 20001-point grid
//        refined by golden-section search is closer by more than 1e-9 m.  Prints `holds` / `fails <detail>`.
//        Labels end in `:t-interior` / `:t-at-pi` (the minimality clause applies only strictly inside (-pi, pi));
//        the generator class `rel:interior/...` (own PRNG stream) keeps the brute-force minimiser strictly interior
//        (checked: |t_brute| < 3.1, else the label says `interior-not-confirmed`).
//   relkf-<class> <9 params>   the same oracle on inputs of a class that is known to fail (none at present)
//   relkt <n> <r phi z>*n | <k> <x0 y0 z0 r phi0 h>*k
//                              through the public API: Track::try_from(cluster) -> t_inner() / t_outer() must be the
//                              closest-approach parameters of the innermost / outermost point (same oracle, with the
//                              tolerance and iteration count the LIBRARY passes).  Trailer: the helix the library fitted
//                              (k = 1) or k = 0 (no track), written by the generator
//   relkc <n> <r phi z>*n | <k> <x0 y0 z0 r phi0 h>*k
//                              the same, hook-free: the clusters are those cluster_spacepoints finds in the point set;
//                              trailer: the helices of all tracks fitted, in cluster order
//   relkv <n> <x0 y0 z0 r phi0 h t_inner t_outer>*n | <k> <x0 y0 z0 r phi0 h>*k
//                              find_vertices -> every (track, t) of the primary vertex: t is the closest-approach
//                              parameter of that track to the vertex position; trailer: the helices of the primary
//                              vertex's tracks in the order find_vertices lists them (k = 0: no primary vertex)
//   Observation of relkt / relkc / relkv (tracks taken in trailer order):
//        `fails <detail>`                  the oracle fails on a track INSIDE the quantifier of C16 (first such track), or
//                                          the library panics, or (replay only) the helices recomputed from the payload
//                                          are not bit for bit those of the trailer (`fails helix-params-differ-from-case-line`)
//        `skipped out-of-domain <bound>`   otherwise, when some track lies OUTSIDE the quantifier; <bound> is that of the
//                                          first such track: nonfinite-params | negative-radius | radius<0.03m |
//                                          radius>5m | centre | pitch (first violated, in this order; see domain_bound)
//        `holds`                           otherwise (every track inside the quantifier, oracle satisfied; also k = 0)
//   The model runner (ocaml/run_c16.ml) evaluates the same domain predicate on the trailer's bit patterns and prints
//   `skipped out-of-domain <bound>` / `holds`: an out-of-domain helix is an explicit, counted outcome, never `holds`.
//   For out-of-domain helices the oracle is still run; its result goes into the LABEL only (`out-of-domain:<bound>:<class>`).
use crate::util::*;
use crate::c14::{case_points, family, parse_floats, points_of, track_params, P3};
use alpha_g_physics::reconstruction::{
    cluster_spacepoints, find_vertices, verif_helix_at, verif_helix_closest_t, Cluster, Track,
};
use alpha_g_physics::SpacePoint;
use std::f64::consts::PI;
use uom::si::angle::radian;
use uom::si::f64::{Angle, Length};
use uom::si::length::meter;

pub fn bits(x: f64) -> String {
    if x.is_nan() {
        "7ff8000000000000".to_string()
    } else {
        format!("{:016x}", x.to_bits())
    }
}
pub fn unbits(s: &str) -> Option<f64> {
    u64::from_str_radix(s, 16).ok().map(f64::from_bits)
}
pub fn spoint(r: f64, phi: f64, z: f64) -> SpacePoint {
    SpacePoint {
        r: Length::new::<meter>(r),
        phi: Angle::new::<radian>(phi),
        z: Length::new::<meter>(z),
    }
}
fn at(p: [f64; 6], t: f64) -> [f64; 3] {
    let c = verif_helix_at(p, t);
    [c.x.get::<meter>(), c.y.get::<meter>(), c.z.get::<meter>()]
}

fn observe_kt(tol: f64, iters: usize, hp: [f64; 6], sp: [f64; 3], tq: f64) -> String {
    let r = catch(move || {
        let t = verif_helix_closest_t(hp, spoint(sp[0], sp[1], sp[2]), tol, iters);
        let a = at(hp, t);
        let b = at(hp, tq);
        format!(
            "ok {} {} {} {} {} {} {}",
            bits(t),
            bits(a[0]),
            bits(a[1]),
            bits(a[2]),
            bits(b[0]),
            bits(b[1]),
            bits(b[2])
        )
    });
    r.unwrap_or_else(|| "panic".to_string())
}

/// distance between the helix point at t and the space point, all through the implementation
fn dist(hp: [f64; 6], q: [f64; 3], t: f64) -> f64 {
    let a = at(hp, t);
    let (dx, dy, dz) = (a[0] - q[0], a[1] - q[1], a[2] - q[2]);
    (dx * dx + dy * dy + dz * dz).sqrt()
}

pub const GRID: usize = 20001;

/// brute-force minimum of the distance over t in [-pi, pi]: dense grid, every grid local minimum refined by
/// golden-section search.  Returns (t_best, d_best).
pub fn brute_min(hp: [f64; 6], q: [f64; 3]) -> (f64, f64) {
    let n = GRID;
    let tt = |i: usize| -> f64 {
        if i == 0 {
            -PI
        } else if i == n - 1 {
            PI
        } else {
            -PI + 2.0 * PI * (i as f64) / ((n - 1) as f64)
        }
    };
    let d: Vec<f64> = (0..n).map(|i| dist(hp, q, tt(i))).collect();
    let mut best = (tt(0), d[0]);
    let mut cands: Vec<usize> = Vec::new();
    for i in 0..n {
        if d[i] < best.1 {
            best = (tt(i), d[i]);
        }
        let l = if i == 0 { f64::INFINITY } else { d[i - 1] };
        let r = if i == n - 1 { f64::INFINITY } else { d[i + 1] };
        if d[i] <= l && d[i] <= r {
            cands.push(i);
        }
    }
    cands.sort_by(|&a, &b| d[a].partial_cmp(&d[b]).unwrap_or(std::cmp::Ordering::Equal));
    cands.truncate(12);
    let g = 0.5 * (5f64.sqrt() - 1.0);
    for &i in &cands {
        let mut a = tt(i.saturating_sub(1));
        let mut b = tt((i + 1).min(n - 1));
        let mut x1 = b - g * (b - a);
        let mut x2 = a + g * (b - a);
        let mut f1 = dist(hp, q, x1);
        let mut f2 = dist(hp, q, x2);
        for _ in 0..90 {
            if f1 < f2 {
                b = x2;
                x2 = x1;
                f2 = f1;
                x1 = b - g * (b - a);
                f1 = dist(hp, q, x1);
            } else {
                a = x1;
                x1 = x2;
                f1 = f2;
                x2 = a + g * (b - a);
                f2 = dist(hp, q, x2);
            }
            if f1 < best.1 {
                best = (x1, f1);
            }
            if f2 < best.1 {
                best = (x2, f2);
            }
        }
    }
    best
}

/// what the brute-force oracle finds for a reported t
#[derive(Clone, Copy)]
pub enum Verdict {
    Nan,
    OutOfRange,
    /// t is exactly -pi or pi: exempt from the minimality clause by the property text
    AtPi,
    /// t strictly inside (-pi, pi): distance at t, brute-force minimiser and its distance
    Interior { d_impl: f64, tb: f64, db: f64 },
}

pub fn verdict(hp: [f64; 6], p: SpacePoint, t: f64) -> Verdict {
    if t.is_nan() {
        return Verdict::Nan;
    }
    if !(t >= -PI && t <= PI) {
        return Verdict::OutOfRange;
    }
    if t > -PI && t < PI {
        let q = [p.x().get::<meter>(), p.y().get::<meter>(), p.z.get::<meter>()];
        let d_impl = dist(hp, q, t);
        let (tb, db) = brute_min(hp, q);
        return Verdict::Interior { d_impl, tb, db };
    }
    Verdict::AtPi
}

/// the observation of the property oracle for a reported t
fn verdict_obs(v: Verdict, t: f64) -> String {
    match v {
        Verdict::Nan => "fails nan".to_string(),
        Verdict::OutOfRange => format!("fails out-of-range t={}", bits(t)),
        Verdict::Interior { d_impl, tb, db } if !(d_impl <= db + 1e-9) => format!(
            "fails not-closest t={} d={:e} t_brute={} d_brute={:e} excess={:e}",
            bits(t),
            d_impl,
            bits(tb),
            db,
            d_impl - db
        ),
        _ => "holds".to_string(),
    }
}

/// histogram class of the reported t (how often the minimality clause is exercised)
fn t_class(v: Verdict) -> &'static str {
    match v {
        Verdict::Nan => "t-nan",
        Verdict::OutOfRange => "t-out-of-range",
        Verdict::AtPi => "t-at-pi",
        Verdict::Interior { .. } => "t-interior",
    }
}

/// the property oracle, on the implementation alone: (observation, verdict; None = panic)
fn oracle_full(hp: [f64; 6], sp: [f64; 3]) -> (String, Option<Verdict>) {
    let r = catch(move || {
        let p = spoint(sp[0], sp[1], sp[2]);
        let t = verif_helix_closest_t(hp, p, f64::EPSILON, 20);
        let v = verdict(hp, p, t);
        (verdict_obs(v, t), Some(v))
    });
    r.unwrap_or_else(|| ("fails panic".to_string(), None))
}

/// the property oracle, on the implementation alone
pub fn oracle(hp: [f64; 6], sp: [f64; 3]) -> String {
    oracle_full(hp, sp).0
}

// ------------------------------------------------------------------------------------------------
// the quantifier of C16 on helices the LIBRARY produces (relkt / relkc / relkv)
// ------------------------------------------------------------------------------------------------
/// None = helix parameters inside the quantifier of C16 (centre within +-3 m, radius 0.03-5 m, |pitch| <= 1e2 m,
/// all six parameters finite); otherwise the FIRST violated bound in this fixed order.  ocaml/run_c16.ml evaluates
/// the same predicate, in the same order, on the bit patterns of the case line's trailer.
pub fn domain_bound(hp: [f64; 6]) -> Option<&'static str> {
    if !hp.iter().all(|x| x.is_finite()) {
        return Some("nonfinite-params");
    }
    if hp[3] < 0.0 {
        return Some("negative-radius");
    }
    if hp[3] < 0.03 {
        return Some("radius<0.03m");
    }
    if hp[3] > 5.0 {
        return Some("radius>5m");
    }
    if hp[0].abs() > 3.0 || hp[1].abs() > 3.0 || hp[2].abs() > 3.0 {
        return Some("centre");
    }
    if hp[5].abs() > 1e2 {
        return Some("pitch");
    }
    None
}

/// coarse class (label only, never an observation) of what the oracle finds on a helix OUTSIDE the quantifier
fn excess_rank(v: Verdict) -> (u8, f64) {
    match v {
        Verdict::AtPi => (0, 0.0),
        Verdict::Interior { d_impl, db, .. } => {
            let e = d_impl - db;
            if d_impl <= db + 1e-9 {
                (1, e)
            } else if e.is_nan() {
                (5, e)
            } else if e > 1e-3 {
                (4, e)
            } else if e > 1e-6 {
                (3, e)
            } else {
                (2, e)
            }
        }
        Verdict::OutOfRange => (6, f64::NAN),
        Verdict::Nan => (7, f64::NAN),
    }
}
const EXCESS_CLASS: [&str; 8] = [
    "t-at-pi",
    "closest",
    "not-closest>1e-9m",
    "not-closest>1e-6m",
    "not-closest>1e-3m",
    "not-closest:nan-distance",
    "t-out-of-range",
    "t-nan",
];

/// what one line (one or several library-made helices, each with its reported t values) amounts to
#[derive(Default)]
struct Tally {
    /// helix parameters of every track the library produced, in the order it produced them (the case line's trailer)
    hps: Vec<[f64; 6]>,
    /// first oracle failure on a track of the domain
    fail: Option<String>,
    /// bound violated by the first track outside the domain
    skip: Option<&'static str>,
    classes: Vec<String>,
    /// a track of the domain was produced and checked
    checked: bool,
}

impl Tally {
    /// one library-made helix with the (t, point) pairs the library reports for it
    fn track(&mut self, hp: [f64; 6], ts: &[(f64, SpacePoint, &'static str)], in_name: &str) {
        self.hps.push(hp);
        match domain_bound(hp) {
            Some(b) => {
                // not a helix of the quantifier (e.g. the fit of nearly collinear points: enormous or negative
                // radius).  Observation `skipped out-of-domain <bound>`; the oracle is still run, for the label only.
                if self.skip.is_none() {
                    self.skip = Some(b);
                }
                if b == "nonfinite-params" {
                    self.classes.push(format!("out-of-domain:{b}"));
                    return;
                }
                let mut worst = (0u8, 0.0f64);
                for (t, p, _) in ts {
                    let e = excess_rank(verdict(hp, *p, *t));
                    if e.0 > worst.0 || (e.0 == worst.0 && e.1 > worst.1) {
                        worst = e;
                    }
                }
                if std::env::var_os("C16_EXCESS_LOG").is_some() {
                    // exploration aid: stderr only, never a label or an observation
                    eprintln!("c16-excess {b} {} {:e} r={:e}", EXCESS_CLASS[worst.0 as usize], worst.1, hp[3]);
                }
                self.classes.push(format!("out-of-domain:{b}:{}", EXCESS_CLASS[worst.0 as usize]));
            }
            None => {
                self.checked = true;
                let mut interior = false;
                for (t, p, which) in ts {
                    let v = verdict(hp, *p, *t);
                    interior |= matches!(v, Verdict::Interior { .. });
                    let o = verdict_obs(v, *t);
                    if o != "holds" {
                        if self.fail.is_none() {
                            let ps: Vec<String> = hp.iter().map(|x| bits(*x)).collect();
                            self.fail = Some(format!("{o} at {which} helix={}", ps.join(",")));
                        }
                        self.classes.push("fail".to_string());
                        return;
                    }
                }
                self.classes.push(format!("{in_name}:{}", if interior { "t-interior" } else { "t-at-pi" }));
            }
        }
    }
    /// `fails` wins over `skipped` wins over `holds`
    fn obs(&self) -> String {
        match (&self.fail, self.skip) {
            (Some(f), _) => f.clone(),
            (None, Some(b)) => format!("skipped out-of-domain {b}"),
            (None, None) => "holds".to_string(),
        }
    }
    fn label(&self, empty: &str) -> String {
        let mut c = self.classes.clone();
        c.sort();
        c.dedup();
        if c.is_empty() {
            empty.to_string()
        } else {
            c.join("+")
        }
    }
    /// ` | <k> <x0 y0 z0 r phi0 h>*k`
    fn trailer(&self) -> String {
        let mut s = format!(" | {}", self.hps.len());
        for hp in &self.hps {
            for x in hp {
                s.push(' ');
                s.push_str(&bits(*x));
            }
        }
        s
    }
}

fn panicked() -> Tally {
    Tally { fail: Some("fails panic".to_string()), classes: vec!["panic".to_string()], ..Default::default() }
}

/// t_inner / t_outer of one fitted cluster against its innermost / outermost point
fn check_cluster(sps: &[SpacePoint], tally: &mut Tally) {
    // three_template_points: minmax_by_key(r): first minimal element, last maximal element
    let mut first = 0;
    let mut last = 0;
    for (i, p) in sps.iter().enumerate() {
        if p.r < sps[first].r {
            first = i;
        }
        if p.r >= sps[last].r {
            last = i;
        }
    }
    match Track::try_from(Cluster::verif_from_points(sps.to_vec())) {
        Err(_) => tally.classes.push("noinit".to_string()),
        Ok(tr) => tally.track(
            tr.verif_params(),
            &[(tr.t_inner(), sps[first], "t_inner"), (tr.t_outer(), sps[last], "t_outer")],
            "track",
        ),
    }
}

/// relkt: the point set is the cluster (hook Cluster::verif_from_points)
fn oracle_track(pts: Vec<P3>) -> Tally {
    let r = catch(move || {
        let mut t = Tally::default();
        check_cluster(&points_of(&pts), &mut t);
        t
    });
    r.unwrap_or_else(panicked)
}

/// relkc: hook-free: the clusters are those cluster_spacepoints finds in the point set
fn oracle_clusters(pts: Vec<P3>) -> Tally {
    let r = catch(move || {
        let res = cluster_spacepoints(points_of(&pts));
        let mut t = Tally::default();
        for c in res.clusters {
            let sps: Vec<SpacePoint> = c.iter().copied().collect();
            check_cluster(&sps, &mut t);
        }
        t
    });
    r.unwrap_or_else(panicked)
}

/// the t reported with every track of the primary vertex (public API)
fn oracle_vertex(trs: Vec<[f64; 8]>) -> Tally {
    let r = catch(move || {
        let tracks: Vec<Track> = trs
            .iter()
            .map(|p| Track::verif_from_params([p[0], p[1], p[2], p[3], p[4], p[5]], p[6], p[7]))
            .collect();
        let res = find_vertices(tracks);
        let mut tally = Tally::default();
        if let Some(v) = res.primary {
            let (x, y, z) = (v.position.x, v.position.y, v.position.z);
            let p = SpacePoint { r: x.hypot(y), phi: y.atan2(x), z };
            for (tr, t) in &v.tracks {
                tally.track(tr.verif_params(), &[(*t, p, "t_vertex")], "primary");
            }
        }
        tally
    });
    r.unwrap_or_else(panicked)
}

/// replay: the helices are RE-COMPUTED from the payload; a trailer that is not bit for bit what the library produces
/// now is a failure (a change of the fit or of the vertex finder cannot hide behind a stale trailer)
fn replay_obs(t: &Tally, trailer: &[&str]) -> String {
    if t.fail.as_deref() == Some("fails panic") && t.hps.is_empty() {
        return "fails panic".to_string();
    }
    let now = t.trailer();
    if now != format!(" | {}", trailer.join(" ")) {
        return "fails helix-params-differ-from-case-line".to_string();
    }
    t.obs()
}

pub fn observe_line(line: &str) -> Option<String> {
    let f: Vec<&str> = line.split(' ').collect();
    if f[0] == "kt" && f.len() == 13 {
        let tol = unbits(f[1])?;
        let iters: usize = f[2].parse().ok()?;
        let v: Vec<f64> = f[3..].iter().map(|s| unbits(s)).collect::<Option<Vec<_>>>()?;
        return Some(observe_kt(
            tol,
            iters,
            [v[0], v[1], v[2], v[3], v[4], v[5]],
            [v[6], v[7], v[8]],
            v[9],
        ));
    }
    if (f[0] == "relk" || f[0].starts_with("relkf-")) && f.len() == 10 {
        let v: Vec<f64> = f[1..].iter().map(|s| unbits(s)).collect::<Option<Vec<_>>>()?;
        return Some(oracle([v[0], v[1], v[2], v[3], v[4], v[5]], [v[6], v[7], v[8]]));
    }
    if f[0] == "relkt" || f[0] == "relkc" || f[0] == "relkv" {
        // <tag> <n> <payload: w floats per item>*n | <k> <x0 y0 z0 r phi0 h>*k
        let w = if f[0] == "relkv" { 8 } else { 3 };
        let n: usize = f.get(1)?.parse().ok()?;
        let bar = 2 + w * n;
        if f.len() < bar + 2 || f[bar] != "|" {
            return None;
        }
        let k: usize = f[bar + 1].parse().ok()?;
        if f.len() != bar + 2 + 6 * k {
            return None;
        }
        let v = parse_floats(&f[2..bar])?;
        let tally = match f[0] {
            "relkt" => oracle_track(v.chunks(3).map(|c| [c[0], c[1], c[2]]).collect()),
            "relkc" => oracle_clusters(v.chunks(3).map(|c| [c[0], c[1], c[2]]).collect()),
            _ => oracle_vertex(v.chunks(8).map(|c| [c[0], c[1], c[2], c[3], c[4], c[5], c[6], c[7]]).collect()),
        };
        return Some(replay_obs(&tally, &f[bar + 1..]));
    }
    None
}

// ------------------------------------------------------------------------------------------------
// generators
// ------------------------------------------------------------------------------------------------
pub fn unit(r: &mut Rng) -> f64 {
    (r.next() >> 11) as f64 / (1u64 << 53) as f64
}
pub fn uniform(r: &mut Rng, lo: f64, hi: f64) -> f64 {
    lo + (hi - lo) * unit(r)
}
pub fn log_uniform(r: &mut Rng, lo: f64, hi: f64) -> f64 {
    (lo.ln() + (hi.ln() - lo.ln()) * unit(r)).exp().clamp(lo, hi)
}
pub fn sign(r: &mut Rng) -> f64 {
    if r.chance(1, 2) {
        1.0
    } else {
        -1.0
    }
}
fn next_up(x: f64) -> f64 {
    f64::from_bits(x.to_bits() + 1)
}
fn next_down(x: f64) -> f64 {
    f64::from_bits(x.to_bits() - 1)
}

/// pitch classes of the quantifier: 0, +-subnormal, +-1e-17..+-1e2, the guard constant EPSILON +-1 ulp
pub fn pitch(r: &mut Rng) -> (f64, &'static str) {
    match r.below(16) {
        0 => (0.0, "h0"),
        1 => (
            sign(r) * r.pick(&[5e-324, 1e-323, 1e-310, 1.1125369292536007e-308, 2.225073858507201e-308]),
            "hsub",
        ),
        2 => (
            sign(r)
                * r.pick(&[
                    f64::EPSILON,
                    next_up(f64::EPSILON),
                    next_down(f64::EPSILON),
                    1e-17,
                    1e2,
                    2.0 * f64::EPSILON,
                    0.5 * f64::EPSILON,
                ]),
            "hguard",
        ),
        3 | 4 => (sign(r) * log_uniform(r, 1e-17, 3e-16), "h1e-17..3e-16"),
        5 | 6 => (sign(r) * log_uniform(r, 2e-16, 1e-8), "h2e-16..1e-8"),
        7 | 8 => (sign(r) * log_uniform(r, 1e-8, 1e-2), "h1e-8..1e-2"),
        9..=12 => (sign(r) * log_uniform(r, 1e-2, 3.0), "h1e-2..3"),
        _ => (sign(r) * log_uniform(r, 3.0, 1e2), "h3..1e2"),
    }
}

pub fn phase(r: &mut Rng) -> f64 {
    match r.below(20) {
        0 => r.pick(&[0.0, PI, -PI, PI / 2.0, -PI / 2.0, -0.0]),
        1 | 2 | 3 => uniform(r, -4.0 * PI, 4.0 * PI),
        _ => uniform(r, -PI, PI),
    }
}

pub fn helix(r: &mut Rng) -> ([f64; 6], &'static str) {
    let c = |r: &mut Rng| -> f64 {
        match r.below(12) {
            0 => r.pick(&[0.0, 0.0, -0.0]),
            1 => r.pick(&[3.0, -3.0]),
            2 => sign(r) * log_uniform(r, 1e-12, 1e-2),
            _ => uniform(r, -3.0, 3.0),
        }
    };
    let rad = match r.below(10) {
        0 => r.pick(&[0.03, 5.0]),
        1 | 2 => uniform(r, 0.03, 5.0),
        _ => log_uniform(r, 0.03, 5.0),
    };
    let (h, hl) = pitch(r);
    ([c(r), c(r), c(r), rad, phase(r), h], hl)
}

/// cylindrical coordinates (r, phi, z) of a cartesian point
fn cyl(x: f64, y: f64, z: f64) -> [f64; 3] {
    [x.hypot(y), y.atan2(x), z]
}

/// a point of the quantifier: anywhere in the drift volume, or within 1 cm of the helix
pub fn point(r: &mut Rng, hp: [f64; 6]) -> ([f64; 3], &'static str) {
    match r.below(11) {
        10 => {
            // special values: signed zeros, subnormals, axis-aligned directions (sign-of-zero and exact-tie paths)
            let rr = r.pick(&[0.0, -0.0, 0.05, 0.15, 0.25, 5e-324, hp[3]]);
            let ph = r.pick(&[0.0, -0.0, 5e-324, -5e-324, PI, -PI, PI / 2.0, -PI / 2.0, hp[4], -hp[4]]);
            let z = r.pick(&[0.0, -0.0, hp[2], hp[2] + hp[5], hp[2] - 0.5 * hp[5], 5e-324, 1.3, -1.3]);
            ([rr, ph, z], "special")
        }
        0..=3 => {
            let rr = match r.below(8) {
                0 => r.pick(&[0.05, 0.25, 0.109, 0.182]),
                _ => uniform(r, 0.05, 0.25),
            };
            let z = match r.below(8) {
                0 => r.pick(&[0.0, 1.3, -1.3, hp[2]]),
                _ => uniform(r, -1.3, 1.3),
            };
            ([rr, uniform(r, -PI, PI), z], "volume")
        }
        4 => {
            // same z as the helix centre z0 up to a few pitches: the revolution is next to the point
            let rr = uniform(r, 0.05, 0.25);
            let k = r.pick(&[0.0, 0.25, -0.25, 0.5, -0.5, 0.49, -0.49, 1.0, -1.0, 2.5]);
            ([rr, uniform(r, -PI, PI), hp[2] + k * hp[5]], "volume-z0")
        }
        _ => {
            // within 1 cm of the helix
            let t0 = match r.below(8) {
                0 => r.pick(&[0.0, PI, -PI, 3.0, -3.0, 3.14, -3.14]),
                _ => uniform(r, -PI, PI),
            };
            let a = at(hp, t0);
            let scale = match r.below(6) {
                0 => 0.0,
                1 => log_uniform(r, 1e-18, 1e-9),
                _ => log_uniform(r, 1e-9, 1e-2),
            };
            // random direction
            let (ux, uy, uz) = (uniform(r, -1.0, 1.0), uniform(r, -1.0, 1.0), uniform(r, -1.0, 1.0));
            let nn = (ux * ux + uy * uy + uz * uz).sqrt().max(1e-300);
            let mut dz = scale * uz / nn;
            match r.below(6) {
                0 => dz = 0.0,
                1 => dz = hp[5] * r.pick(&[0.5, -0.5, 0.01, -0.01, 1.0, -1.0]),
                _ => {}
            }
            if dz.abs() > 0.01 {
                dz = 0.0;
            }
            (cyl(a[0] + scale * ux / nn, a[1] + scale * uy / nn, a[2] + dz), "near-helix")
        }
    }
}

/// helices with eccentricity e = 4 pi^2 rho r / h^2 close to 1 and M close to 0 (slowest Newton convergence)
fn critical(r: &mut Rng) -> ([f64; 6], [f64; 3]) {
    let (mut hp, _) = helix(r);
    let rad = hp[3];
    // point at distance rho from the axis, direction psi
    let rho = log_uniform(r, 0.01, 2.0);
    let psi = uniform(r, -PI, PI);
    let f = 1.0
        + match r.below(4) {
            0 => 0.0,
            1 => sign(r) * log_uniform(r, 1e-16, 1e-6),
            _ => sign(r) * log_uniform(r, 1e-6, 0.5),
        };
    hp[5] = sign(r) * 2.0 * PI * (rad * rho).sqrt() * f;
    // choose z so that temp = phi0 + 2 pi (z - z0)/h - delta = pi + m  (M = -m small)
    let m = match r.below(4) {
        0 => 0.0,
        1 => sign(r) * log_uniform(r, 1e-16, 1e-6),
        _ => sign(r) * log_uniform(r, 1e-6, 1.0),
    };
    let z = hp[2] + (PI + m - hp[4] + psi) * hp[5] / (2.0 * PI);
    (hp, cyl(hp[0] + rho * psi.cos(), hp[1] + rho * psi.sin(), z))
}

/// points whose TRUE closest-approach parameter is meant to lie strictly inside (-pi, pi): the helix point at
/// t0 in (-3, 3) displaced by at most 1 cm (along the principal normal, or in a random direction), with a z offset
/// of less than half a pitch so that the nearest revolution is the one of t0.  The caller labels the case by the
/// CHECKED fact (brute-force minimiser strictly interior), not by this intent.
fn interior(r: &mut Rng) -> ([f64; 6], [f64; 3], String) {
    let (hp, hl) = helix(r);
    let t0 = uniform(r, -3.0, 3.0);
    let a = at(hp, t0);
    let scale = match r.below(6) {
        0 => 0.0,
        1 => log_uniform(r, 1e-18, 1e-9),
        _ => log_uniform(r, 1e-9, 1e-2),
    };
    let (d, dl) = match r.below(3) {
        0 => {
            // principal normal (radial, in the plane of the circle): t0 stays the minimiser
            let (nx, ny) = (a[0] - hp[0], a[1] - hp[1]);
            let nn = nx.hypot(ny).max(1e-300);
            let sg = sign(r);
            ([sg * scale * nx / nn, sg * scale * ny / nn, 0.0], "normal")
        }
        _ => {
            let (ux, uy, uz) = (uniform(r, -1.0, 1.0), uniform(r, -1.0, 1.0), uniform(r, -1.0, 1.0));
            let nn = (ux * ux + uy * uy + uz * uz).sqrt().max(1e-300);
            let lim = 0.45 * hp[5].abs();
            ([scale * ux / nn, scale * uy / nn, (scale * uz / nn).clamp(-lim, lim)], "anydir")
        }
    };
    (hp, cyl(a[0] + d[0], a[1] + d[1], a[2] + d[2]), format!("{hl}/{dl}"))
}

fn case_kt(tol: f64, iters: usize, hp: [f64; 6], sp: [f64; 3], tq: f64) -> String {
    let mut s = format!("kt {} {}", bits(tol), iters);
    for x in hp.iter().chain(sp.iter()) {
        s.push(' ');
        s.push_str(&bits(*x));
    }
    s.push(' ');
    s.push_str(&bits(tq));
    s
}
fn case_rel(tag: &str, hp: [f64; 6], sp: [f64; 3]) -> String {
    let mut s = tag.to_string();
    for x in hp.iter().chain(sp.iter()) {
        s.push(' ');
        s.push_str(&bits(*x));
    }
    s
}

pub fn run(tier: &str, seed: u64, s: &mut Sink) {
    let mut r = Rng::new(seed ^ 0xC16);
    let (n_kt, n_rel) = if tier == "thorough" { (400_000, 60_000) } else { (16_000, 2_500) };
    for i in 0..n_kt {
        let (hp, sp, label) = if i % 10 == 9 {
            let (hp, sp) = critical(&mut r);
            (hp, sp, "critical-e~1".to_string())
        } else {
            let (hp, hl) = helix(&mut r);
            let (sp, pl) = point(&mut r, hp);
            (hp, sp, format!("{hl}/{pl}"))
        };
        // the library's tolerance and iteration count, and a stream with other values (model parameters)
        let (tol, iters) = if r.chance(1, 8) {
            (
                r.pick(&[0.0, f64::EPSILON, -f64::EPSILON, 1e-12, 1e-3, 1.0]),
                r.pick(&[0usize, 1, 2, 5, 19, 20, 21, 50]),
            )
        } else {
            (f64::EPSILON, 20)
        };
        let tq = if r.chance(1, 8) { r.pick(&[0.0, PI, -PI, -0.0]) } else { uniform(&mut r, -PI, PI) };
        let obs = observe_kt(tol, iters, hp, sp, tq);
        let nontrivial = hp[5].abs() >= f64::EPSILON;
        let label = if tol == f64::EPSILON && iters == 20 { label } else { format!("{label}/tol-iters-varied") };
        s.put(&case_kt(tol, iters, hp, sp, tq), &obs, &label, nontrivial);
    }
    for i in 0..n_rel {
        let (hp, sp, label) = if i % 5 == 4 {
            let (hp, sp) = critical(&mut r);
            (hp, sp, "rel:critical-e~1".to_string())
        } else {
            let (hp, hl) = helix(&mut r);
            let (sp, pl) = point(&mut r, hp);
            (hp, sp, format!("rel:{hl}/{pl}"))
        };
        let (obs, v) = oracle_full(hp, sp);
        let tc = v.map(t_class).unwrap_or("panic");
        s.put(&case_rel("relk", hp, sp), &obs, &format!("{label}:{tc}"), hp[5].abs() >= f64::EPSILON);
    }
    // relk cases whose true minimiser is strictly inside (-pi, pi) (the minimality clause of the property applies
    // only there): a stream of its own, so that the cases above are those of the earlier versions of this check
    let mut ri = Rng::new(seed ^ 0xC16_0001);
    let n_int = if tier == "thorough" { 80_000 } else { 3_500 };
    for _ in 0..n_int {
        let (hp, sp, gl) = interior(&mut ri);
        let (obs, v) = oracle_full(hp, sp);
        let tc = v.map(t_class).unwrap_or("panic");
        // the checked fact: the brute-force minimiser over [-pi, pi] is strictly interior
        let tb = match v {
            Some(Verdict::Interior { tb, .. }) => Some(tb),
            _ => catch(move || {
                let p = spoint(sp[0], sp[1], sp[2]);
                brute_min(hp, [p.x().get::<meter>(), p.y().get::<meter>(), p.z.get::<meter>()]).0
            }),
        };
        let class = if tb.map_or(false, |t| t.abs() < 3.1) { "interior" } else { "interior-not-confirmed" };
        s.put(&case_rel("relk", hp, sp), &obs, &format!("rel:{class}/{gl}:{tc}"), hp[5].abs() >= f64::EPSILON);
    }
    // the same property where the library reports t through its public API
    let (n_trk, n_vtx) = if tier == "thorough" { (3000, 3000) } else { (250, 300) };
    for _ in 0..n_trk {
        let n = r.range(3, 40) as usize;
        let (mut pts, fam) = family(&mut r, n);
        if pts.len() < 3 {
            continue;
        }
        pts.truncate(60);
        let t = oracle_track(pts.clone());
        s.put(
            &format!("{}{}", case_points("relkt", &pts), t.trailer()),
            &t.obs(),
            &format!("rel-track:{fam}:{}", t.label("no-track")),
            t.checked,
        );
    }
    for _ in 0..n_trk / 2 {
        let n = r.range(13, if tier == "thorough" { 400 } else { 120 }) as usize;
        let (pts, fam) = family(&mut r, n);
        let t = oracle_clusters(pts.clone());
        s.put(
            &format!("{}{}", case_points("relkc", &pts), t.trailer()),
            &t.obs(),
            &format!("rel-clusters:{fam}:{}", t.label("no-cluster")),
            t.checked,
        );
    }
    for _ in 0..n_vtx {
        let k = r.range(2, 8) as usize;
        let shared_z = uniform(&mut r, -1.0, 1.0);
        let mut trs: Vec<[f64; 8]> = Vec::new();
        for _ in 0..k {
            let mut t = track_params(&mut r);
            let zb = alpha_g_physics::reconstruction::verif_helix_closest_to_beamline([t[0], t[1], t[2], t[3], t[4], t[5]])
                .z
                .get::<meter>();
            t[2] = (t[2] - zb + shared_z + uniform(&mut r, -0.02, 0.02)).clamp(-3.0, 3.0);
            trs.push(t);
        }
        let t = oracle_vertex(trs.clone());
        let mut c = format!("relkv {}", trs.len());
        for t in &trs {
            for x in t {
                c.push(' ');
                c.push_str(&bits(*x));
            }
        }
        c.push_str(&t.trailer());
        s.put(&c, &t.obs(), &format!("rel-vertex:{}", t.label("no-primary")), t.checked);
    }
}
